"""./check selftest [name ...] [--props C01,C02] [--jobs J] [--inplace]

Detection demonstration: for each seeded change under /verif/seeded/<name>/patch.diff, run the
quick checks against micromap *with the change applied* and record which properties' checks
raise a VIOLATION (written to /verif/seeded/RESULTS.json).

Two modes:
  --inplace   apply the patch to /repo itself (git -C /repo apply), run the registered commands
              exactly as they are, undo (git -C /repo checkout -- .). /repo must be clean.
  default     each worker owns a scratch checkout of /repo's HEAD under /tmp/selftest-<i>/repo and a
              build directory /tmp/selftest-<i>/target; the same ./check commands are pointed at them
              through VERIF_REPO / VERIF_TARGET (a cargo `paths` override), so /repo is never touched
              and J seeded changes are examined in parallel. Scratch directories are removed at the end.
"""
import json
import os
import shutil
import subprocess
import sys
import threading
import time
from concurrent.futures import ThreadPoolExecutor

VERIF = os.path.dirname(os.path.abspath(__file__))
SEEDED = os.path.join(VERIF, "seeded")
LOCK = threading.Lock()


def sh(cmd, env=None):
    e = dict(os.environ)
    if env:
        e.update(env)
    return subprocess.run(cmd, shell=True, stdout=subprocess.PIPE, stderr=subprocess.STDOUT, text=True, env=e)


def classify(all_props, tier, env):
    caught, clean, broken, notes = [], [], [], {}
    for pid in all_props:
        p = sh(f"cd {VERIF} && ./check {pid} --tier {tier}", env)
        if p.returncode == 1 and "VIOLATION property=" in p.stdout:
            caught.append(pid)
            first = [l for l in p.stdout.splitlines() if l.strip().startswith(("observed:", "history="))][:2]
            notes[pid] = " | ".join(x.strip()[:240] for x in first)
        elif p.returncode == 0:
            clean.append(pid)
        else:
            broken.append(pid)
            notes[pid] = p.stdout[-300:]
    return caught, clean, broken, notes


def main(argv, tier):
    props = None
    jobs = 3
    inplace = False
    if "--props" in argv:
        i = argv.index("--props")
        props = argv[i + 1].split(",")
        del argv[i:i + 2]
    if "--jobs" in argv:
        i = argv.index("--jobs")
        jobs = int(argv[i + 1])
        del argv[i:i + 2]
    if "--inplace" in argv:
        argv.remove("--inplace")
        inplace = True
    global SEEDED
    benign = False
    if "--benign" in argv:
        # property-PRESERVING refactorings (/verif/benign/<name>/patch.diff): every check must stay silent
        argv.remove("--benign")
        benign = True
        SEEDED = os.path.join(VERIF, "benign")
    target_only = False
    if "--target-only" in argv:
        argv.remove("--target-only")
        target_only = True
    names = argv or sorted(d for d in os.listdir(SEEDED) if os.path.isfile(os.path.join(SEEDED, d, "patch.diff")))
    import importlib.machinery, importlib.util
    loader = importlib.machinery.SourceFileLoader("check_mod", os.path.join(VERIF, "check"))
    spec = importlib.util.spec_from_loader("check_mod", loader)
    chk = importlib.util.module_from_spec(spec)
    loader.exec_module(chk)
    results_path = os.path.join(SEEDED, "RESULTS.json")
    results = json.load(open(results_path)) if os.path.exists(results_path) else {}
    head = sh("git -C /repo rev-parse --short HEAD").stdout.strip()

    def props_for(meta):
        if props:
            return props
        if target_only and meta.get("breaks_property"):
            return [meta["breaks_property"]]
        return list(chk.PLAN.keys())

    def record(name, meta, caught, clean, broken, notes, t0, mode):
        target = meta.get("breaks_property")
        entry = {"breaks_property": target, "caught_by": caught, "silent": clean, "machinery_error": broken,
                 "target_check_catches": (target in caught) if target else None, "tier": tier, "mode": mode,
                 "repo_head": head, "first_observation": notes, "wall_s": round(time.time() - t0, 1),
                 # every property's check was run in this pass (not a --props / --target-only partial run)
                 "complete": not (props or (target_only and target))}
        with LOCK:
            if (props or target_only) and name in results and not results[name].get("error"):
                # partial run: merge into the existing row
                old = results[name]
                for k in ("caught_by", "silent", "machinery_error"):
                    old[k] = sorted((set(old.get(k, [])) - set(caught + clean + broken)) | set(entry[k]))
                old.setdefault("first_observation", {}).update(notes)
                old["target_check_catches"] = (target in old["caught_by"]) if target else None
                old["repo_head"] = head
            else:
                results[name] = entry
            with open(results_path, "w") as f:
                json.dump(results, f, indent=1, sort_keys=True)
        if benign:
            flag = "FALSE-ALARM" if caught else "SILENT (as it must be)"
        else:
            flag = "CAUGHT" if caught else "MISSED"
        print(f"{name}: {flag} target={target} caught_by={caught} machinery={broken}", flush=True)

    if inplace:
        if sh("git -C /repo status --porcelain --untracked-files=no").stdout.strip():
            print("refusing: /repo has uncommitted changes")
            return 2
        for name in names:
            meta_p = os.path.join(SEEDED, name, "meta.json")
            meta = json.load(open(meta_p)) if os.path.exists(meta_p) else {}
            t0 = time.time()
            r = sh(f"git -C /repo apply {os.path.join(SEEDED, name, 'patch.diff')}")
            if r.returncode != 0:
                print(f"{name}: patch does not apply: {r.stdout}")
                results[name] = {"error": "patch does not apply"}
                continue
            try:
                if not (props or target_only):
                    sh(f"cd {VERIF} && ./check build")
                record(name, meta, *classify(props_for(meta), tier, None), t0, "in place (/repo patched, registered commands)")
            finally:
                sh("git -C /repo checkout -- .")
        return 0

    slots = list(range(jobs))
    slot_lock = threading.Lock()

    def worker(name):
        with slot_lock:
            slot = slots.pop()
        try:
            base = f"/tmp/selftest-{os.getpid()}-{slot}"   # per-process: concurrent selftests must not share scratch space
            wt, tgt = f"{base}/repo", f"{base}/target"
            if not os.path.isdir(wt):
                os.makedirs(base, exist_ok=True)
                sh("git -C /repo worktree prune")
                r = sh(f"git -C /repo worktree add --detach {wt} HEAD")
                if r.returncode != 0:
                    print(f"{name}: cannot create scratch checkout: {r.stdout}")
                    return
            sh(f"git -C {wt} checkout -q --detach {head} && git -C {wt} checkout -- . && git -C {wt} clean -fdq")
            meta_p = os.path.join(SEEDED, name, "meta.json")
            meta = json.load(open(meta_p)) if os.path.exists(meta_p) else {}
            t0 = time.time()
            r = sh(f"git -C {wt} apply {os.path.join(SEEDED, name, 'patch.diff')}")
            if r.returncode != 0:
                print(f"{name}: patch does not apply: {r.stdout}")
                with LOCK:
                    results[name] = {"error": "patch does not apply"}
                return
            env = {"VERIF_REPO": wt, "VERIF_TARGET": tgt}
            if not (props or target_only):
                b = sh(f"cd {VERIF} && ./check build", env)
                if "MACHINERY-ERROR" in b.stdout:
                    print(f"{name}: build failed with the patch applied: {b.stdout[-600:]}")
            record(name, meta, *classify(props_for(meta), tier, env), t0, "scratch checkout (VERIF_REPO override)")
        finally:
            with slot_lock:
                slots.append(slot)

    with ThreadPoolExecutor(max_workers=jobs) as ex:
        list(ex.map(worker, names))
    for slot in range(jobs):
        base = f"/tmp/selftest-{os.getpid()}-{slot}"
        if os.path.isdir(base):
            sh(f"git -C /repo worktree remove --force {base}/repo")
            shutil.rmtree(base, ignore_errors=True)
    sh("git -C /repo worktree prune")
    return 0
