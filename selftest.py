"""./check selftest [name ...] [--props C01,C02] : apply each seeded change to /repo, run the quick
checks, report which properties' checks raise a VIOLATION, and revert. Results are written to
/verif/seeded/RESULTS.json. /repo must be clean; it is restored after every patch."""
import json
import os
import subprocess
import sys
import time

VERIF = os.path.dirname(os.path.abspath(__file__))
SEEDED = os.path.join(VERIF, "seeded")


def sh(cmd):
    return subprocess.run(cmd, shell=True, stdout=subprocess.PIPE, stderr=subprocess.STDOUT, text=True)


def main(argv, tier):
    props = None
    if "--props" in argv:
        i = argv.index("--props")
        props = argv[i + 1].split(",")
        del argv[i:i + 2]
    names = argv or sorted(d for d in os.listdir(SEEDED) if os.path.isfile(os.path.join(SEEDED, d, "patch.diff")))
    if sh("git -C /repo status --porcelain --untracked-files=no").stdout.strip():
        print("refusing: /repo has uncommitted changes")
        return 2
    import importlib.machinery, importlib.util
    loader = importlib.machinery.SourceFileLoader("check_mod", os.path.join(VERIF, "check"))
    spec = importlib.util.spec_from_loader("check_mod", loader)
    chk = importlib.util.module_from_spec(spec)
    loader.exec_module(chk)
    all_props = props or list(chk.PLAN.keys())
    results_path = os.path.join(SEEDED, "RESULTS.json")
    results = {}
    if os.path.exists(results_path):
        results = json.load(open(results_path))
    for name in names:
        patch = os.path.join(SEEDED, name, "patch.diff")
        meta_p = os.path.join(SEEDED, name, "meta.json")
        meta = json.load(open(meta_p)) if os.path.exists(meta_p) else {}
        target = meta.get("breaks_property")
        t0 = time.time()
        r = sh(f"git -C /repo apply {patch}")
        if r.returncode != 0:
            print(f"{name}: patch does not apply: {r.stdout}")
            results[name] = {"error": "patch does not apply"}
            continue
        try:
            # build everything once, in parallel
            sh(f"cd {VERIF}/mc && CARGO_TARGET_DIR={VERIF}/target cargo build --release --bins")
            sh(f"cd {VERIF}/mc && CARGO_TARGET_DIR={VERIF}/target cargo build --bins")
            caught, clean, broken = [], [], []
            for pid in all_props:
                p = sh(f"cd {VERIF} && ./check {pid} --tier {tier}")
                if p.returncode == 1 and "VIOLATION property=" in p.stdout:
                    caught.append(pid)
                elif p.returncode == 0:
                    clean.append(pid)
                else:
                    broken.append(pid)
            results[name] = {"breaks_property": target, "caught_by": caught, "silent": clean, "machinery_error": broken,
                             "target_check_catches": (target in caught) if target else None, "tier": tier,
                             "wall_s": round(time.time() - t0, 1)}
            flag = "CAUGHT" if caught else "MISSED"
            print(f"{name}: {flag} target={target} caught_by={caught} machinery={broken}")
        finally:
            sh("git -C /repo checkout -- .")
        with open(results_path, "w") as f:
            json.dump(results, f, indent=1, sort_keys=True)
    # restore evidence for the unchanged tree is the caller's job (re-run the checks)
    return 0
