#!/bin/bash
# seed_confirm.sh <agent-worktree> <name> <property> : confirm a seeded change independently in a
# fresh scratch worktree of /repo (suite passes with it; demo fails with it and passes without),
# then store it under /verif/seeded/<name>/ . The scratch worktree is removed afterwards.
set -u
SRC=$1; NAME=$2; PROP=$3; FEAT=${4:-}
WT=/tmp/confirm-$NAME
export CARGO_NET_OFFLINE=true CARGO_TARGET_DIR=/tmp/confirm-target
rm -rf $WT; git -C /repo worktree prune
git -C /repo worktree add -q --detach $WT HEAD || exit 2
cleanup() { git -C /repo worktree remove --force $WT 2>/dev/null; }
trap cleanup EXIT
cd $WT
git apply $SRC/_seed/patch.diff || { echo "CONFIRM-FAIL: patch does not apply"; exit 1; }
cargo build --offline 2>&1 | tail -1
cargo build --offline --release 2>&1 | tail -1 | grep -q Finished || { echo "CONFIRM-FAIL: release build"; exit 1; }
SUITE=$(cargo nextest run --workspace --no-fail-fast --tool-config-file pb:/w/lib/nextest.toml --profile pb --test-threads 8 --offline 2>&1 | grep -E "Summary" )
echo "suite with change: $SUITE"
echo "$SUITE" | grep -Eq "13[1-9] tests run: 13[1-9] passed" && ! echo "$SUITE" | grep -q failed || { echo "CONFIRM-FAIL: suite does not pass with the change"; exit 1; }
DOC=$(cargo test --offline --doc 2>&1 | grep "test result" | tail -1)
echo "doctests with change: $DOC"
if [ -n "$FEAT" ]; then
  SF=$(cargo test --offline $FEAT --lib 2>&1 | grep "test result" | tail -1); echo "lib tests with $FEAT: $SF"
  echo "$SF" | grep -q " 0 failed" || { echo "CONFIRM-FAIL: suite with $FEAT fails"; exit 1; }
fi
echo "$DOC" | grep -q " 0 failed" || { echo "CONFIRM-FAIL: doc tests fail with the change"; exit 1; }
cp $SRC/_seed/demo.rs tests/seed_demo.rs
WITH=$(cargo test --offline $FEAT --test seed_demo 2>&1 | grep -E "^test result|error(\[|:)|panicked|SIG|signal" | head -3)
echo "demo with change: $WITH"
WITHR=$(cargo test --offline $FEAT --release --test seed_demo 2>&1 | grep -E "^test result|error(\[|:)|SIG|signal" | head -2)
echo "demo with change (release): $WITHR"
# a change may manifest in one build profile only: the demo must fail in at least one of them
if echo "$WITH" | grep -q "test result: ok" && echo "$WITHR" | grep -q "test result: ok"; then echo "CONFIRM-FAIL: demo passes with the change in both profiles"; exit 1; fi
git apply -R $SRC/_seed/patch.diff
WITHOUT=$(cargo test --offline $FEAT --test seed_demo 2>&1 | grep -E "^test result" | head -3)
echo "demo without change: $WITHOUT"
echo "$WITHOUT" | grep -q "test result: ok" || { echo "CONFIRM-FAIL: demo fails without the change"; exit 1; }
WITHOUTR=$(cargo test --offline $FEAT --release --test seed_demo 2>&1 | grep -E "^test result" | head -3)
echo "demo without change (release): $WITHOUTR"
echo "$WITHOUTR" | grep -q "test result: ok" || { echo "CONFIRM-FAIL: demo fails without the change in release"; exit 1; }
mkdir -p /verif/seeded/$NAME
cp $SRC/_seed/patch.diff $SRC/_seed/demo.rs /verif/seeded/$NAME/
cp $SRC/_seed/notes.md /verif/seeded/$NAME/notes.md 2>/dev/null
python3 - "$NAME" "$PROP" "$SUITE" "$WITH" "$WITHR" "$WITHOUT" <<'PY'
import json,sys
name,prop,suite,w,wr,wo=sys.argv[1:7]
notes=open(f'/verif/seeded/{name}/notes.md').read() if True else ''
json.dump({"name":name,"breaks_property":prop,"source":"independent sub-agent given only the property text and a scratch worktree",
 "needs_to_manifest":"see notes.md","confirmed":{"repo_commit":"HEAD of /repo at confirmation","suite_with_change":suite.strip(),
 "demo_with_change_dev":w.strip(),"demo_with_change_release":wr.strip(),"demo_without_change":wo.strip()},
 "commands":["git apply patch.diff","cargo nextest run (pinned suite) -> 131 passed","cargo test --doc -> 0 failed","cargo test --test seed_demo -> fails","git apply -R; cargo test --test seed_demo -> passes"]},
 open(f'/verif/seeded/{name}/meta.json','w'),indent=1)
PY
echo "CONFIRMED $NAME"
