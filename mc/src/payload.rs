//! Instrumented key/value payloads, the per-thread ownership ledger and the panic fuse.
//!
//! Every constructor / clone / comparison / borrow / formatting / drop of a `Kx` or `Vx`
//! goes through the thread-local ledger, which judges it on the spot (double drop, drop or
//! use of something that is not a live object) and counts it as a *user callback* for the
//! fuse, which can make exactly one chosen callback panic.

use std::borrow::Borrow;
use std::cell::RefCell;
use std::fmt;

pub const NOID: u32 = u32::MAX;
const MAGIC_K: u64 = 0x4B45_59C0_DE5A_FE00;
const MAGIC_V: u64 = 0x5641_4CC0_DE5A_FE00;
const DEAD: u64 = 0xDEAD_DEAD_DEAD_DEAD;

/// Descriptor of a key object as the harness / reference model sees it.
#[derive(Clone, Copy, PartialEq, Eq, PartialOrd, Ord, Hash, Debug)]
pub struct KD {
    pub id: u32,
    pub k: u8,
    pub tag: u8,
}
/// Descriptor of a value object.
#[derive(Clone, Copy, PartialEq, Eq, PartialOrd, Ord, Hash, Debug)]
pub struct VD {
    pub id: u32,
    pub v: u8,
}

impl fmt::Display for KD {
    fn fmt(&self, f: &mut fmt::Formatter<'_>) -> fmt::Result {
        if self.id == NOID {
            write!(f, "k{}", self.k)
        } else {
            write!(f, "k{}t{}#{}", self.k, self.tag, self.id)
        }
    }
}
impl fmt::Display for VD {
    fn fmt(&self, f: &mut fmt::Formatter<'_>) -> fmt::Result {
        if self.id == NOID {
            write!(f, "v{}", self.v)
        } else {
            write!(f, "v{}#{}", self.v, self.id)
        }
    }
}

/// Kinds of user callbacks micromap can make; each one is a fuse position.
#[derive(Clone, Copy, PartialEq, Eq, Debug)]
#[repr(u8)]
pub enum Cb {
    Eq = 0,
    Borrow = 1,
    Clone = 2,
    Drop = 3,
    Default = 4,
    Pred = 5,
    Closure = 6,
    SrcNext = 7,
    Fmt = 8,
}
pub const CB_NAMES: [&str; 9] = [
    "eq", "borrow", "clone", "drop", "default", "pred", "closure", "src_next", "fmt",
];

/// Payload of an injected panic (distinguishes it from container-raised panics).
#[derive(Debug, Clone, Copy)]
pub struct Injected(pub Cb, pub u32);

#[derive(Clone, Copy, PartialEq, Eq, Debug)]
pub enum LClass {
    DoubleDrop,
    GarbageDrop,
    DeadUse,
    GarbageUse,
}

#[derive(Clone, Debug)]
pub struct LViol {
    pub class: LClass,
    pub msg: String,
}

#[derive(Clone, Copy, Debug)]
pub struct Obj {
    pub live: bool,
    pub is_key: bool,
    pub code: u8,
    pub tag: u8,
    pub clone_of: u32,
    pub clones: u16,
}

pub struct Ledger {
    pub epoch: u32,
    pub objs: Vec<Obj>,
    pub viol: Vec<LViol>,
    pub counts: [u64; 9],
    // fuse
    pub armed: bool,
    pub ticks: u32,
    pub fuse_at: u32,
    pub fired: Option<(Cb, u32)>,
    pub tick_kinds: Vec<Cb>,
    pub in_unwind_ticks: u32,
}

impl Ledger {
    const fn new() -> Self {
        Ledger {
            epoch: 1,
            objs: Vec::new(),
            viol: Vec::new(),
            counts: [0; 9],
            armed: false,
            ticks: 0,
            fuse_at: u32::MAX,
            fired: None,
            tick_kinds: Vec::new(),
            in_unwind_ticks: 0,
        }
    }
}

thread_local! {
    static LEDGER: RefCell<Ledger> = const { RefCell::new(Ledger::new()) };
}

pub fn with<R>(f: impl FnOnce(&mut Ledger) -> R) -> R {
    LEDGER.with(|l| f(&mut l.borrow_mut()))
}

/// Start a new run: all previous objects become unrecognisable (new epoch).
pub fn reset() {
    with(|l| {
        l.epoch = l.epoch.wrapping_add(1);
        if l.epoch == 0 {
            l.epoch = 1;
        }
        l.objs.clear();
        l.viol.clear();
        l.counts = [0; 9];
        l.armed = false;
        l.ticks = 0;
        l.fuse_at = u32::MAX;
        l.fired = None;
        l.tick_kinds.clear();
        l.in_unwind_ticks = 0;
    });
    ZCOUNT.with(|c| c.set([0; 3]));
}

/// Arm the fuse: callbacks are counted from 0; callback number `at` panics (u32::MAX: count only).
pub fn arm(at: u32) {
    with(|l| {
        l.armed = true;
        l.ticks = 0;
        l.fuse_at = at;
        l.fired = None;
        l.tick_kinds.clear();
        l.in_unwind_ticks = 0;
    });
}
/// Disarm; returns (callbacks counted, what fired).
pub fn disarm() -> (u32, Option<(Cb, u32)>) {
    with(|l| {
        l.armed = false;
        (l.ticks, l.fired)
    })
}
pub fn tick_kinds() -> Vec<Cb> {
    with(|l| l.tick_kinds.clone())
}

/// One user callback. May panic (once per arming) with an `Injected` payload.
#[inline]
pub fn tick(cb: Cb) {
    let fire = LEDGER.with(|l| {
        let mut l = l.borrow_mut();
        l.counts[cb as usize] += 1;
        if !l.armed {
            return None;
        }
        let pos = l.ticks;
        l.ticks += 1;
        l.tick_kinds.push(cb);
        if std::thread::panicking() {
            l.in_unwind_ticks += 1;
            return None;
        }
        if l.fired.is_none() && pos == l.fuse_at {
            l.fired = Some((cb, pos));
            return Some(pos);
        }
        None
    });
    if let Some(pos) = fire {
        std::panic::panic_any(Injected(cb, pos));
    }
}

pub fn next_id() -> u32 {
    with(|l| l.objs.len() as u32)
}
pub fn live_ids() -> Vec<u32> {
    with(|l| {
        l.objs
            .iter()
            .enumerate()
            .filter(|(_, o)| o.live)
            .map(|(i, _)| i as u32)
            .collect()
    })
}
pub fn live_count() -> usize {
    with(|l| l.objs.iter().filter(|o| o.live).count())
}
pub fn is_live(id: u32) -> bool {
    with(|l| l.objs.get(id as usize).map(|o| o.live).unwrap_or(false))
}
pub fn obj(id: u32) -> Option<Obj> {
    with(|l| l.objs.get(id as usize).copied())
}
pub fn take_violations() -> Vec<LViol> {
    with(|l| std::mem::take(&mut l.viol))
}
pub fn violation_count() -> usize {
    with(|l| l.viol.len())
}
pub fn counts() -> [u64; 9] {
    with(|l| l.counts)
}

fn cookie_for(is_key: bool, epoch: u32, id: u32) -> u64 {
    (if is_key { MAGIC_K } else { MAGIC_V }) ^ ((epoch as u64) << 40) ^ (id as u64)
}

fn alloc(is_key: bool, code: u8, tag: u8, clone_of: u32) -> (u64, u32) {
    with(|l| {
        let id = l.objs.len() as u32;
        l.objs.push(Obj {
            live: true,
            is_key,
            code,
            tag,
            clone_of,
            clones: 0,
        });
        (cookie_for(is_key, l.epoch, id), id)
    })
}

/// Judge a non-destroying use of an object. Returns true when it is a live, genuine object.
fn touch(is_key: bool, cookie: u64, id: u32, code: u8, tag: u8, what: &str) -> bool {
    with(|l| {
        if cookie == DEAD {
            l.viol.push(LViol {
                class: LClass::DeadUse,
                msg: format!("{what} on an already destroyed {} (id field {id})", kind(is_key)),
            });
            return false;
        }
        let ok_cookie = cookie == cookie_for(is_key, l.epoch, id);
        match l.objs.get(id as usize) {
            Some(o) if ok_cookie && o.is_key == is_key && o.code == code && o.tag == tag => {
                if o.live {
                    true
                } else {
                    l.viol.push(LViol {
                        class: LClass::DeadUse,
                        msg: format!("{what} on a stale copy of destroyed {} #{id}", kind(is_key)),
                    });
                    false
                }
            }
            _ => {
                l.viol.push(LViol {
                    class: LClass::GarbageUse,
                    msg: format!(
                        "{what} on bytes that are not a {} object (cookie {cookie:#x}, id field {id})",
                        kind(is_key)
                    ),
                });
                false
            }
        }
    })
}

fn destroy(is_key: bool, cookie: u64, id: u32, code: u8, tag: u8) {
    with(|l| {
        if cookie == DEAD {
            l.viol.push(LViol {
                class: LClass::DoubleDrop,
                msg: format!("drop of an already destroyed {} (id field {id})", kind(is_key)),
            });
            return;
        }
        let ok_cookie = cookie == cookie_for(is_key, l.epoch, id);
        match l.objs.get_mut(id as usize) {
            Some(o) if ok_cookie && o.is_key == is_key && o.code == code && o.tag == tag => {
                if o.live {
                    o.live = false;
                } else {
                    l.viol.push(LViol {
                        class: LClass::DoubleDrop,
                        msg: format!("second drop of {} #{id}", kind(is_key)),
                    });
                }
            }
            _ => {
                l.viol.push(LViol {
                    class: LClass::GarbageDrop,
                    msg: format!(
                        "drop of bytes that are not a {} object (cookie {cookie:#x}, id field {id})",
                        kind(is_key)
                    ),
                });
            }
        }
    })
}

fn kind(is_key: bool) -> &'static str {
    if is_key {
        "key"
    } else {
        "value"
    }
}

// ------------------------------------------------------------------------------------------
// Kx: key payload. `==` compares `k` only, so equal keys with different `tag` are
// distinguishable. Borrows as `u8` (a distinct borrowed form).
// ------------------------------------------------------------------------------------------
#[repr(C)]
pub struct Kx {
    cookie: u64,
    id: u32,
    pub k: u8,
    pub tag: u8,
}

impl Kx {
    pub fn new(k: u8, tag: u8) -> Self {
        let (cookie, id) = alloc(true, k, tag, NOID);
        Kx { cookie, id, k, tag }
    }
    /// Descriptor, judged as a use of the object (flags dead / garbage objects).
    pub fn desc(&self) -> KD {
        touch(true, self.cookie, self.id, self.k, self.tag, "inspect");
        KD {
            id: self.id,
            k: self.k,
            tag: self.tag,
        }
    }
    pub fn id(&self) -> u32 {
        self.id
    }
}
/// Non-reflexive key mode (`map_mc --nan`): key code NAN_CODE compares unequal to everything,
/// itself included (like f64::NAN under PartialEq). 255 = off.
pub static NAN_CODE: std::sync::atomic::AtomicU8 = std::sync::atomic::AtomicU8::new(255);
pub fn set_nan_code(c: Option<u8>) {
    NAN_CODE.store(c.unwrap_or(255), std::sync::atomic::Ordering::Relaxed);
}
#[inline]
pub fn nan_code() -> Option<u8> {
    match NAN_CODE.load(std::sync::atomic::Ordering::Relaxed) {
        255 => None,
        c => Some(c),
    }
}
impl PartialEq for Kx {
    fn eq(&self, other: &Self) -> bool {
        tick(Cb::Eq);
        touch(true, self.cookie, self.id, self.k, self.tag, "==");
        touch(true, other.cookie, other.id, other.k, other.tag, "==");
        if let Some(n) = nan_code() {
            if self.k == n || other.k == n {
                return false;
            }
        }
        self.k == other.k
    }
}
impl Eq for Kx {}
impl Borrow<u8> for Kx {
    fn borrow(&self) -> &u8 {
        tick(Cb::Borrow);
        touch(true, self.cookie, self.id, self.k, self.tag, "borrow");
        &self.k
    }
}
impl Clone for Kx {
    fn clone(&self) -> Self {
        tick(Cb::Clone);
        let ok = touch(true, self.cookie, self.id, self.k, self.tag, "clone");
        if ok {
            with(|l| l.objs[self.id as usize].clones += 1);
        }
        let (cookie, id) = alloc(true, self.k, self.tag, self.id);
        Kx {
            cookie,
            id,
            k: self.k,
            tag: self.tag,
        }
    }
}
impl Drop for Kx {
    fn drop(&mut self) {
        destroy(true, self.cookie, self.id, self.k, self.tag);
        unsafe { std::ptr::write_volatile(&mut self.cookie, DEAD) };
        tick(Cb::Drop);
    }
}
impl fmt::Debug for Kx {
    fn fmt(&self, f: &mut fmt::Formatter<'_>) -> fmt::Result {
        tick(Cb::Fmt);
        touch(true, self.cookie, self.id, self.k, self.tag, "Debug");
        write!(f, "k{}t{}", self.k, self.tag)
    }
}
impl fmt::Display for Kx {
    fn fmt(&self, f: &mut fmt::Formatter<'_>) -> fmt::Result {
        tick(Cb::Fmt);
        touch(true, self.cookie, self.id, self.k, self.tag, "Display");
        write!(f, "K{}T{}", self.k, self.tag)
    }
}

// ------------------------------------------------------------------------------------------
// Vx: value payload.
// ------------------------------------------------------------------------------------------
#[repr(C)]
pub struct Vx {
    cookie: u64,
    id: u32,
    pub v: u8,
    /// build dimension `--cfg mc_wide` (the "wide" build of ./check): the value is 80 bytes, so a
    /// (Kx, Vx) pair is 96 bytes - code that treats wide pairs specially (moves them differently,
    /// drops them in place) is exercised by every ledger engine. Every word repeats the cookie.
    #[cfg(mc_wide)]
    pad: [u64; 8],
}

#[cfg(mc_wide)]
fn pad_intact(cookie: u64, pad: &[u64; 8], what: &str) {
    if cookie != DEAD && pad.iter().any(|w| *w != cookie) {
        with(|l| {
            l.viol.push(LViol {
                class: LClass::GarbageUse,
                msg: format!("{what} on a value whose trailing words were torn or shifted (cookie {cookie:#x}, words {pad:x?})"),
            })
        });
    }
}

impl Vx {
    pub fn new(v: u8) -> Self {
        let (cookie, id) = alloc(false, v, 0, NOID);
        Vx {
            cookie,
            id,
            v,
            #[cfg(mc_wide)]
            pad: [cookie; 8],
        }
    }
    pub fn desc(&self) -> VD {
        #[cfg(mc_wide)]
        pad_intact(self.cookie, &self.pad, "inspect");
        touch(false, self.cookie, self.id, self.v, 0, "inspect");
        VD {
            id: self.id,
            v: self.v,
        }
    }
    pub fn id(&self) -> u32 {
        self.id
    }
}
impl PartialEq for Vx {
    fn eq(&self, other: &Self) -> bool {
        tick(Cb::Eq);
        touch(false, self.cookie, self.id, self.v, 0, "==");
        touch(false, other.cookie, other.id, other.v, 0, "==");
        self.v == other.v
    }
}
impl Eq for Vx {}
impl Default for Vx {
    fn default() -> Self {
        tick(Cb::Default);
        Vx::new(0)
    }
}
impl Clone for Vx {
    fn clone(&self) -> Self {
        tick(Cb::Clone);
        let ok = touch(false, self.cookie, self.id, self.v, 0, "clone");
        if ok {
            with(|l| l.objs[self.id as usize].clones += 1);
        }
        let (cookie, id) = alloc(false, self.v, 0, self.id);
        #[cfg(mc_wide)]
        pad_intact(self.cookie, &self.pad, "clone");
        Vx {
            cookie,
            id,
            v: self.v,
            #[cfg(mc_wide)]
            pad: [cookie; 8],
        }
    }
}
impl Drop for Vx {
    fn drop(&mut self) {
        #[cfg(mc_wide)]
        pad_intact(self.cookie, &self.pad, "drop");
        destroy(false, self.cookie, self.id, self.v, 0);
        unsafe { std::ptr::write_volatile(&mut self.cookie, DEAD) };
        tick(Cb::Drop);
    }
}
impl fmt::Debug for Vx {
    fn fmt(&self, f: &mut fmt::Formatter<'_>) -> fmt::Result {
        tick(Cb::Fmt);
        touch(false, self.cookie, self.id, self.v, 0, "Debug");
        write!(f, "v{}", self.v)
    }
}
impl fmt::Display for Vx {
    fn fmt(&self, f: &mut fmt::Formatter<'_>) -> fmt::Result {
        tick(Cb::Fmt);
        touch(false, self.cookie, self.id, self.v, 0, "Display");
        write!(f, "V{}", self.v)
    }
}

// ------------------------------------------------------------------------------------------
// Payload traits: the engines are generic over these, so the same exploration runs on the
// ledger payloads and on plain ones (u8, String, (), large arrays).
// ------------------------------------------------------------------------------------------
pub trait KeyT: PartialEq + Eq + Clone + Borrow<Self::Q> + fmt::Debug + Sized + 'static {
    /// A borrowed form used for lookups (`Q = Self` when there is no distinct one).
    type Q: ?Sized + Eq;
    const NAME: &'static str;
    /// number of distinguishable copies of each key
    const TAGS: u8;
    /// largest usable key universe
    const MAXK: u8;
    /// key codes below this can be made (codes in MAXK..MAXCODE serve as fillers outside every universe)
    const MAXCODE: u8 = Self::MAXK;
    const LEDGER: bool;
    const DISTINCT_Q: bool;
    /// no payload method allocates (so a subject call with this type must not allocate)
    const PLAIN: bool = false;
    fn mk(k: u8, tag: u8) -> Self;
    fn kd(&self) -> KD;
    fn with_q<R>(k: u8, f: impl FnOnce(&Self::Q) -> R) -> R;
    /// A borrowed-form value that is NOT equal to this key (nor to any key of the universe) but whose
    /// reference *aliases* this stored key in memory - e.g. a proper prefix of a stored `String`'s own
    /// buffer: same start address, different length. Lookups through it must say "absent".
    fn alias_probe<R>(&self, _f: impl FnOnce(&Self::Q) -> R) -> Option<R> {
        None
    }
}
pub trait ValT: PartialEq + Clone + Default + fmt::Debug + Sized + 'static {
    const NAME: &'static str;
    /// number of distinct values available
    const MAXV: u8;
    const LEDGER: bool;
    /// code that `vd()` reports for `Default::default()`
    const DEFAULT_CODE: u8;
    /// objects carry ledger identities (even if their destruction is not observable)
    const HAS_ID: bool = Self::LEDGER;
    /// no payload method allocates
    const PLAIN: bool = false;
    fn mk(v: u8) -> Self;
    fn vd(&self) -> VD;
    /// change the value in place (object identity is kept)
    fn set(&mut self, v: u8);
    /// For value types that have no bytes to carry a ledger identity (counted zero-sized types):
    /// (made, cloned, destroyed) since the last `reset()`. Balance (made + cloned == destroyed once
    /// everything is gone) and exact clone counts are judged from these.
    fn counters() -> Option<[u64; 3]> {
        None
    }
}

thread_local! {
    static ZCOUNT: std::cell::Cell<[u64; 3]> = const { std::cell::Cell::new([0; 3]) };
}
fn zbump(i: usize) {
    ZCOUNT.with(|c| {
        let mut x = c.get();
        x[i] += 1;
        c.set(x);
    });
}
/// A zero-sized value WITH drop glue and an observable Clone: there are no bytes to copy, move or
/// tear, but every creation, clone and destruction is counted - "a zero-sized value needs no work"
/// is wrong for it.
#[derive(PartialEq, Eq)]
pub struct Zc(());
impl Zc {
    pub fn new() -> Self {
        zbump(0);
        Zc(())
    }
}
impl Default for Zc {
    fn default() -> Self {
        Zc::new()
    }
}
impl Clone for Zc {
    fn clone(&self) -> Self {
        zbump(1);
        Zc(())
    }
}
impl Drop for Zc {
    fn drop(&mut self) {
        zbump(2);
    }
}
impl fmt::Debug for Zc {
    fn fmt(&self, f: &mut fmt::Formatter<'_>) -> fmt::Result {
        f.write_str("Zc")
    }
}
impl ValT for Zc {
    const NAME: &'static str = "Zc(counted ZST)";
    const MAXV: u8 = 1;
    const LEDGER: bool = false;
    const DEFAULT_CODE: u8 = 0;
    fn mk(_v: u8) -> Self {
        Zc::new()
    }
    fn vd(&self) -> VD {
        VD { id: NOID, v: 0 }
    }
    fn set(&mut self, _v: u8) {}
    fn counters() -> Option<[u64; 3]> {
        Some(ZCOUNT.with(|c| c.get()))
    }
}

impl KeyT for Kx {
    const MAXCODE: u8 = 64;
    type Q = u8;
    const NAME: &'static str = "Kx";
    const TAGS: u8 = 2;
    const MAXK: u8 = 8;
    const LEDGER: bool = true;
    const DISTINCT_Q: bool = true;
    fn mk(k: u8, tag: u8) -> Self {
        Kx::new(k, tag)
    }
    fn kd(&self) -> KD {
        self.desc()
    }
    fn with_q<R>(k: u8, f: impl FnOnce(&u8) -> R) -> R {
        f(&k)
    }
}
impl ValT for Vx {
    const NAME: &'static str = "Vx";
    const MAXV: u8 = 8;
    const LEDGER: bool = true;
    const DEFAULT_CODE: u8 = 0;
    fn mk(v: u8) -> Self {
        Vx::new(v)
    }
    fn vd(&self) -> VD {
        self.desc()
    }
    fn set(&mut self, v: u8) {
        if touch(false, self.cookie, self.id, self.v, 0, "write") {
            with(|l| l.objs[self.id as usize].code = v);
        }
        self.v = v;
    }
}

impl KeyT for u8 {
    const MAXCODE: u8 = 64;
    const PLAIN: bool = true;
    type Q = u8;
    const NAME: &'static str = "u8";
    const TAGS: u8 = 1;
    const MAXK: u8 = 8;
    const LEDGER: bool = false;
    const DISTINCT_Q: bool = false;
    fn mk(k: u8, _tag: u8) -> Self {
        k
    }
    fn kd(&self) -> KD {
        KD {
            id: NOID,
            k: *self,
            tag: 0,
        }
    }
    fn with_q<R>(k: u8, f: impl FnOnce(&u8) -> R) -> R {
        f(&k)
    }
}
impl ValT for u8 {
    const PLAIN: bool = true;
    const NAME: &'static str = "u8";
    const MAXV: u8 = 8;
    const LEDGER: bool = false;
    const DEFAULT_CODE: u8 = 0;
    fn mk(v: u8) -> Self {
        v
    }
    fn vd(&self) -> VD {
        VD { id: NOID, v: *self }
    }
    fn set(&mut self, v: u8) {
        *self = v;
    }
}

const STRS: [&str; 8] = [
    "key-0-heap-owned",
    "key-1-heap-owned",
    "key-2-heap-owned",
    "key-3-heap-owned",
    "key-4-heap-owned",
    "key-5-heap-owned",
    "key-6-heap-owned",
    "key-7-heap-owned",
];
fn str_code(s: &str) -> u8 {
    let b = s.as_bytes();
    if b.len() == 16 && &b[..4] == b"key-" && &b[5..] == b"-heap-owned" && (b'0'..=b'7').contains(&b[4]) {
        b[4] - b'0'
    } else {
        0xFF
    }
}
impl KeyT for String {
    type Q = str;
    const NAME: &'static str = "String";
    const TAGS: u8 = 1;
    const MAXK: u8 = 8;
    const LEDGER: bool = false;
    const DISTINCT_Q: bool = true;
    // key code 0 is the EMPTY string: its borrowed form `&str` is a zero-sized value (size_of_val == 0)
    fn mk(k: u8, _tag: u8) -> Self {
        if k == 0 {
            String::new()
        } else {
            STRS[k as usize].to_string()
        }
    }
    fn kd(&self) -> KD {
        KD {
            id: NOID,
            k: if self.is_empty() { 0 } else { str_code(self) },
            tag: 0,
        }
    }
    fn with_q<R>(k: u8, f: impl FnOnce(&str) -> R) -> R {
        f(if k == 0 { "" } else { STRS[k as usize] })
    }
    fn alias_probe<R>(&self, f: impl FnOnce(&str) -> R) -> Option<R> {
        if self.len() > 1 {
            Some(f(&self[..self.len() - 1]))
        } else {
            None
        }
    }
}
impl ValT for String {
    const NAME: &'static str = "String";
    const MAXV: u8 = 8;
    const LEDGER: bool = false;
    const DEFAULT_CODE: u8 = 0xEE;
    fn mk(v: u8) -> Self {
        STRS[v as usize].to_string()
    }
    fn vd(&self) -> VD {
        // String::default() is "", which is not a generated value: map it to code 0xEE
        VD {
            id: NOID,
            v: if self.is_empty() { 0xEE } else { str_code(self) },
        }
    }
    fn set(&mut self, v: u8) {
        *self = STRS[v as usize].to_string();
    }
}

/// Keys whose equality is coarser than their bytes: `PathBuf` compares component-wise, so "d/k3",
/// "d//k3" and "d/./k3" are EQUAL keys of different lengths. Tag 0 / tag 1 are the first two
/// spellings (distinguishable equal key objects, without a ledger); lookups through the borrowed
/// form `&Path` use the third, so a stored key and the probe that finds it never have the same size.
impl KeyT for std::path::PathBuf {
    type Q = std::path::Path;
    const NAME: &'static str = "PathBuf";
    const TAGS: u8 = 2;
    const MAXK: u8 = 8;
    const MAXCODE: u8 = 32;
    const LEDGER: bool = false;
    const DISTINCT_Q: bool = true;
    fn mk(k: u8, tag: u8) -> Self {
        std::path::PathBuf::from(if tag == 0 { format!("d/k{k}") } else { format!("d//k{k}") })
    }
    fn kd(&self) -> KD {
        let s = self.to_str().unwrap_or("");
        let code = s.rsplit('k').next().and_then(|d| d.parse::<u8>().ok()).filter(|_| s.starts_with("d/")).unwrap_or(0xFF);
        KD {
            id: NOID,
            k: code,
            tag: u8::from(s.contains("//")),
        }
    }
    fn with_q<R>(k: u8, f: impl FnOnce(&std::path::Path) -> R) -> R {
        f(std::path::Path::new(&format!("d/./k{k}")))
    }
    fn alias_probe<R>(&self, f: impl FnOnce(&std::path::Path) -> R) -> Option<R> {
        // "d": starts at the stored key's own buffer, is shorter, and equals no key
        self.parent().map(f)
    }
}

impl KeyT for () {
    const PLAIN: bool = true;
    type Q = ();
    const NAME: &'static str = "unit";
    const TAGS: u8 = 1;
    const MAXK: u8 = 1;
    const LEDGER: bool = false;
    const DISTINCT_Q: bool = false;
    fn mk(_k: u8, _tag: u8) -> Self {}
    fn kd(&self) -> KD {
        KD {
            id: NOID,
            k: 0,
            tag: 0,
        }
    }
    fn with_q<R>(_k: u8, f: impl FnOnce(&()) -> R) -> R {
        f(&())
    }
}
impl ValT for () {
    const PLAIN: bool = true;
    const NAME: &'static str = "unit";
    const MAXV: u8 = 1;
    const LEDGER: bool = false;
    const DEFAULT_CODE: u8 = 0;
    fn mk(_v: u8) -> Self {}
    fn vd(&self) -> VD {
        VD { id: NOID, v: 0 }
    }
    fn set(&mut self, _v: u8) {}
}

/// A large plain value (128 bytes) whose every word carries the code, so a torn or shifted
/// copy is recognisable.
#[derive(Clone, PartialEq, Eq, Debug)]
pub struct Big(pub [u64; 16]);
impl Default for Big {
    fn default() -> Self {
        Big([0xEE; 16])
    }
}
impl ValT for Big {
    const PLAIN: bool = true;
    const NAME: &'static str = "Big128";
    const MAXV: u8 = 8;
    const LEDGER: bool = false;
    const DEFAULT_CODE: u8 = 0xEE;
    fn mk(v: u8) -> Self {
        Big([0xB16_0000 + v as u64; 16])
    }
    fn vd(&self) -> VD {
        let w = self.0[0];
        let v = if self.0.iter().all(|x| *x == w) {
            if w == 0xEE {
                0xEE
            } else if (0xB16_0000..0xB16_0008).contains(&w) {
                (w - 0xB16_0000) as u8
            } else {
                0xFF
            }
        } else {
            0xFF
        };
        VD { id: NOID, v }
    }
    fn set(&mut self, v: u8) {
        *self = Big::mk(v);
    }
}

/// An over-aligned plain value (alignment 64, size 64): strides computed from anything but
/// `size_of::<(K, V)>()`, or storage that is not aligned for the pair type, show up as torn values.
#[derive(Clone, PartialEq, Eq, Debug)]
#[repr(align(64))]
pub struct Al(pub u8, pub [u8; 7]);
impl Default for Al {
    fn default() -> Self {
        Al(0xEE, [0xEE; 7])
    }
}
impl ValT for Al {
    const PLAIN: bool = true;
    const NAME: &'static str = "Align64";
    const MAXV: u8 = 8;
    const LEDGER: bool = false;
    const DEFAULT_CODE: u8 = 0xEE;
    fn mk(v: u8) -> Self {
        Al(v, [v ^ 0x5A; 7])
    }
    fn vd(&self) -> VD {
        let aligned = (self as *const Al as usize) % 64 == 0;
        let v = if !aligned {
            0xFD
        } else if self.0 == 0xEE && self.1 == [0xEE; 7] {
            0xEE
        } else if self.0 < 8 && self.1 == [self.0 ^ 0x5A; 7] {
            self.0
        } else {
            0xFF
        };
        VD { id: NOID, v }
    }
    fn set(&mut self, v: u8) {
        *self = Al::mk(v);
    }
}

// ------------------------------------------------------------------------------------------
// Kn / Vn: payloads WITHOUT drop glue (no Drop impl, not Copy) whose Clone is observable:
// every clone goes through the ledger (fresh identity, clone_of, per-object clone count).
// They make "exactly one clone per element" decidable for code that special-cases types
// without destructors. Their destruction cannot be observed, so LEDGER is false.
// ------------------------------------------------------------------------------------------
#[repr(C)]
pub struct Kn {
    cookie: u64,
    id: u32,
    pub k: u8,
    pub tag: u8,
}
impl Kn {
    pub fn new(k: u8, tag: u8) -> Self {
        let (cookie, id) = alloc(true, k, tag, NOID);
        Kn { cookie, id, k, tag }
    }
}
impl PartialEq for Kn {
    fn eq(&self, other: &Self) -> bool {
        tick(Cb::Eq);
        touch(true, self.cookie, self.id, self.k, self.tag, "==");
        touch(true, other.cookie, other.id, other.k, other.tag, "==");
        self.k == other.k
    }
}
impl Eq for Kn {}
impl Borrow<u8> for Kn {
    fn borrow(&self) -> &u8 {
        tick(Cb::Borrow);
        &self.k
    }
}
impl Clone for Kn {
    fn clone(&self) -> Self {
        tick(Cb::Clone);
        if touch(true, self.cookie, self.id, self.k, self.tag, "clone") {
            with(|l| l.objs[self.id as usize].clones += 1);
        }
        let (cookie, id) = alloc(true, self.k, self.tag, self.id);
        Kn { cookie, id, k: self.k, tag: self.tag }
    }
}
impl fmt::Debug for Kn {
    fn fmt(&self, f: &mut fmt::Formatter<'_>) -> fmt::Result {
        write!(f, "k{}t{}", self.k, self.tag)
    }
}
impl KeyT for Kn {
    const MAXCODE: u8 = 64;
    type Q = u8;
    const NAME: &'static str = "Kn(no drop glue)";
    const TAGS: u8 = 2;
    const MAXK: u8 = 8;
    const LEDGER: bool = false;
    const DISTINCT_Q: bool = true;
    fn mk(k: u8, tag: u8) -> Self {
        Kn::new(k, tag)
    }
    fn kd(&self) -> KD {
        touch(true, self.cookie, self.id, self.k, self.tag, "inspect");
        KD { id: self.id, k: self.k, tag: self.tag }
    }
    fn with_q<R>(k: u8, f: impl FnOnce(&u8) -> R) -> R {
        f(&k)
    }
}

#[repr(C)]
pub struct Vn {
    cookie: u64,
    id: u32,
    pub v: u8,
}
impl Vn {
    pub fn new(v: u8) -> Self {
        let (cookie, id) = alloc(false, v, 0, NOID);
        Vn { cookie, id, v }
    }
}
impl PartialEq for Vn {
    fn eq(&self, other: &Self) -> bool {
        tick(Cb::Eq);
        self.v == other.v
    }
}
impl Default for Vn {
    fn default() -> Self {
        Vn::new(0)
    }
}
impl Clone for Vn {
    fn clone(&self) -> Self {
        tick(Cb::Clone);
        if touch(false, self.cookie, self.id, self.v, 0, "clone") {
            with(|l| l.objs[self.id as usize].clones += 1);
        }
        let (cookie, id) = alloc(false, self.v, 0, self.id);
        Vn { cookie, id, v: self.v }
    }
}
impl fmt::Debug for Vn {
    fn fmt(&self, f: &mut fmt::Formatter<'_>) -> fmt::Result {
        write!(f, "v{}", self.v)
    }
}
impl ValT for Vn {
    const NAME: &'static str = "Vn(no drop glue)";
    const MAXV: u8 = 8;
    const LEDGER: bool = false;
    const HAS_ID: bool = true;
    const DEFAULT_CODE: u8 = 0;
    fn mk(v: u8) -> Self {
        Vn::new(v)
    }
    fn vd(&self) -> VD {
        touch(false, self.cookie, self.id, self.v, 0, "inspect");
        VD { id: self.id, v: self.v }
    }
    fn set(&mut self, v: u8) {
        with(|l| {
            if let Some(o) = l.objs.get_mut(self.id as usize) {
                o.code = v;
            }
        });
        self.v = v;
    }
}

// ------------------------------------------------------------------------------------------
// Lk / LQ: the liar (C17). A ledger key whose `==`, whose borrowed form's `==`, and whose
// `borrow()` answer from a per-thread *tape*: call number p of the run deviates from the
// lawful answer iff bit p of the tape is set (beyond the tape the answer is lawful). While a
// state is being built the tape can instead force every comparison to "not equal", which is
// how layouts with duplicate keys are produced through the real API.
// ------------------------------------------------------------------------------------------
#[derive(Clone, Copy, PartialEq, Eq, Debug)]
pub enum TapeMode {
    Lawful,
    ForceNe,
    Tape,
}
pub struct Tape {
    pub mode: TapeMode,
    pub devs: u64,
    pub pos: u32,
    pub consumed_devs: u32,
    pub nk: u8,
}
thread_local! {
    static TAPE: RefCell<Tape> = const { RefCell::new(Tape { mode: TapeMode::Lawful, devs: 0, pos: 0, consumed_devs: 0, nk: 2 }) };
}
pub fn tape_set(mode: TapeMode, devs: u64, nk: u8) {
    TAPE.with(|t| {
        let mut t = t.borrow_mut();
        t.mode = mode;
        t.devs = devs;
        t.pos = 0;
        t.consumed_devs = 0;
        t.nk = nk.max(1);
    });
}
/// Back to lawful answers; returns (answers given since tape_set, deviations actually consumed).
pub fn tape_off() -> (u32, u32) {
    TAPE.with(|t| {
        let mut t = t.borrow_mut();
        t.mode = TapeMode::Lawful;
        (t.pos, t.consumed_devs)
    })
}
/// One answer: Some(true) deviate, Some(false) lawful, None: forced "not equal".
fn tape_next() -> (Option<bool>, u8) {
    TAPE.with(|t| {
        let mut t = t.borrow_mut();
        match t.mode {
            TapeMode::Lawful => (Some(false), t.nk),
            TapeMode::ForceNe => (None, t.nk),
            TapeMode::Tape => {
                let p = t.pos;
                t.pos += 1;
                let d = p < 64 && (t.devs >> p) & 1 == 1;
                if d {
                    t.consumed_devs += 1;
                }
                (Some(d), t.nk)
            }
        }
    })
}

#[repr(C)]
pub struct Lk {
    cookie: u64,
    id: u32,
    pub k: u8,
    pub tag: u8,
}
/// The liar's borrowed form.
#[repr(transparent)]
#[derive(Debug)]
pub struct LQ(pub u8);
static LQS: [LQ; 8] = [LQ(0), LQ(1), LQ(2), LQ(3), LQ(4), LQ(5), LQ(6), LQ(7)];

impl Lk {
    pub fn new(k: u8, tag: u8) -> Self {
        let (cookie, id) = alloc(true, k, tag, NOID);
        Lk { cookie, id, k, tag }
    }
}
impl PartialEq for Lk {
    fn eq(&self, other: &Self) -> bool {
        tick(Cb::Eq);
        touch(true, self.cookie, self.id, self.k, self.tag, "==");
        touch(true, other.cookie, other.id, other.k, other.tag, "==");
        let lawful = self.k == other.k;
        match tape_next().0 {
            None => false,
            Some(d) => lawful ^ d,
        }
    }
}
impl Eq for Lk {}
impl PartialEq for LQ {
    fn eq(&self, other: &Self) -> bool {
        tick(Cb::Eq);
        let lawful = self.0 == other.0;
        match tape_next().0 {
            None => false,
            Some(d) => lawful ^ d,
        }
    }
}
impl Eq for LQ {}
impl Borrow<LQ> for Lk {
    fn borrow(&self) -> &LQ {
        tick(Cb::Borrow);
        touch(true, self.cookie, self.id, self.k, self.tag, "borrow");
        let (a, nk) = tape_next();
        let idx = if a == Some(true) { (self.k + 1) % nk } else { self.k };
        &LQS[(idx & 7) as usize]
    }
}
impl Clone for Lk {
    fn clone(&self) -> Self {
        tick(Cb::Clone);
        if touch(true, self.cookie, self.id, self.k, self.tag, "clone") {
            with(|l| l.objs[self.id as usize].clones += 1);
        }
        let (cookie, id) = alloc(true, self.k, self.tag, self.id);
        Lk { cookie, id, k: self.k, tag: self.tag }
    }
}
impl Drop for Lk {
    fn drop(&mut self) {
        destroy(true, self.cookie, self.id, self.k, self.tag);
        unsafe { std::ptr::write_volatile(&mut self.cookie, DEAD) };
        tick(Cb::Drop);
    }
}
impl fmt::Debug for Lk {
    fn fmt(&self, f: &mut fmt::Formatter<'_>) -> fmt::Result {
        touch(true, self.cookie, self.id, self.k, self.tag, "Debug");
        write!(f, "k{}t{}", self.k, self.tag)
    }
}
impl KeyT for Lk {
    type Q = LQ;
    const NAME: &'static str = "Lk(liar)";
    const TAGS: u8 = 1;
    const MAXK: u8 = 8;
    const LEDGER: bool = true;
    const DISTINCT_Q: bool = true;
    fn mk(k: u8, tag: u8) -> Self {
        Lk::new(k, tag)
    }
    fn kd(&self) -> KD {
        touch(true, self.cookie, self.id, self.k, self.tag, "inspect");
        KD { id: self.id, k: self.k, tag: self.tag }
    }
    fn with_q<R>(k: u8, f: impl FnOnce(&LQ) -> R) -> R {
        f(&LQS[(k & 7) as usize])
    }
}
