//! Judging a container that survived a panic in user code (C04) or a lying `==` (C17):
//! nothing is compared with a reference model (the property does not say which elements
//! survive), only well-formedness, ownership and continued usability.

use crate::ctx::*;
use crate::mapsys::flush_ledger;
use crate::payload::{self as pl, KeyT, ValT};
use micromap::{Map, Set};

/// Well-formedness of a Map that must hold no matter what happened before.
/// Returns the entries seen.
pub fn wellformed_map<K: KeyT, V: ValT, const N: usize>(
    m: &Map<K, V, N>,
    cx: &mut Ctx,
    pm: PMask,
    unique_keys: bool,
    what: &str,
) -> Vec<(pl::KD, pl::VD)> {
    let len = m.len();
    cx.check(pm, len <= N, || format!("{what}: len() {len} exceeds the capacity {N}"));
    let mut seen = Vec::new();
    for (k, v) in m.iter().take(N + 2) {
        seen.push((k.kd(), v.vd()));
    }
    cx.check(pm, seen.len() == len, || {
        format!("{what}: iter() yields {} entries but len() is {len}", seen.len())
    });
    cx.check(pm, m.is_empty() == (len == 0), || format!("{what}: is_empty() disagrees with len() {len}"));
    if K::LEDGER || V::LEDGER {
        let mut ids: Vec<u32> = Vec::new();
        for (k, v) in &seen {
            if K::LEDGER {
                ids.push(k.id);
            }
            if V::LEDGER {
                ids.push(v.id);
            }
        }
        let n = ids.len();
        for id in &ids {
            cx.check(pm, pl::is_live(*id), || {
                format!("{what}: the container yields object #{id}, which has already been destroyed")
            });
        }
        ids.sort_unstable();
        ids.dedup();
        cx.check(pm, ids.len() == n, || format!("{what}: the same object is stored in two slots: {seen:?}"));
    }
    if unique_keys {
        for (i, (k, _)) in seen.iter().enumerate() {
            for (k2, _) in &seen[..i] {
                cx.check(pm, k.k != k2.k, || format!("{what}: two equal keys {k} and {k2} are stored"));
            }
        }
    }
    flush_ledger(cx, pm, what);
    seen
}

/// Use the surviving map normally and drop it; every step is watched by the ledger.
pub fn exercise_and_drop_map<K: KeyT, V: ValT, const N: usize>(
    mut bx: Box<Canary<Map<K, V, N>>>,
    nk: u8,
    cx: &mut Ctx,
    pm: PMask,
    lawful: bool,
) {
    let what = "using the surviving container";
    cx.check(pm, bx.intact(), || "a canary next to the container was overwritten".to_string());
    let seen = wellformed_map(&bx.c, cx, pm, lawful, "after the unwinding");
    let m = &mut bx.c;
    if lawful {
        // lookups agree with what iteration shows
        for k in 0..nk {
            let probe = K::mk(k, 0);
            let has = seen.iter().any(|(kd, _)| kd.k == k);
            let got = m.get::<K>(&probe).is_some();
            cx.check(pm, got == has, || format!("{what}: get(k{k}) is {got} but iteration shows presence {has}"));
        }
        // a fresh key can be added when there is room
        if m.len() < N {
            if let Some(k) = (0..nk).find(|k| !seen.iter().any(|(kd, _)| kd.k == *k)) {
                let r = m.insert(K::mk(k, 0), V::mk(0));
                cx.check(pm, r.is_none(), || format!("{what}: insert of absent k{k} returned a value"));
                cx.check(pm, m.len() == seen.len() + 1, || format!("{what}: len() did not grow after an insert"));
            }
        }
        wellformed_map(m, cx, pm, true, "after an insert into the surviving container");
        // retain half, remove the rest one by one
        m.retain(|k, _| k.kd().k % 2 == 0);
        wellformed_map(m, cx, pm, true, "after retain on the surviving container");
        for k in 0..nk {
            let probe = K::mk(k, 0);
            let before = m.len();
            let r = m.remove::<K>(&probe);
            let after = m.len();
            cx.check(pm, after + usize::from(r.is_some()) == before, || {
                format!("{what}: remove(k{k}) returned {} but len went {before} -> {after}", r.is_some())
            });
        }
        cx.check(pm, m.is_empty(), || format!("{what}: not empty after removing every key"));
        // refill completely, then clear
        for k in 0..(N as u8).min(nk) {
            m.insert(K::mk(k, 0), V::mk(0));
        }
        cx.check(pm, m.len() == N.min(nk as usize), || format!("{what}: cannot be refilled to capacity"));
        wellformed_map(m, cx, pm, true, "after refilling the surviving container");
        m.clear();
        cx.check(pm, m.is_empty(), || format!("{what}: clear() left entries"));
        if N > 0 {
            m.insert(K::mk(0, 0), V::mk(0));
        }
    } else {
        // under a lying == only order-independent, comparison-free use is meaningful
        m.retain(|k, _| k.kd().k % 2 == 0);
        wellformed_map(m, cx, pm, false, "after retain on the surviving container");
    }
    flush_ledger(cx, pm, what);
    cx.check(pm, bx.intact(), || "a canary next to the container was overwritten".to_string());
    drop(bx);
    flush_ledger(cx, pm, "dropping the surviving container");
}

pub fn wellformed_set<K: KeyT, const N: usize>(s: &Set<K, N>, cx: &mut Ctx, pm: PMask, unique: bool, what: &str) -> Vec<pl::KD> {
    let len = s.len();
    cx.check(pm, len <= N, || format!("{what}: len() {len} exceeds the capacity {N}"));
    let seen: Vec<pl::KD> = s.iter().take(N + 2).map(|k| k.kd()).collect();
    cx.check(pm, seen.len() == len, || {
        format!("{what}: iter() yields {} elements but len() is {len}", seen.len())
    });
    cx.check(pm, s.is_empty() == (len == 0), || format!("{what}: is_empty() disagrees with len() {len}"));
    if K::LEDGER {
        let mut ids: Vec<u32> = seen.iter().map(|k| k.id).collect();
        for id in &ids {
            cx.check(pm, pl::is_live(*id), || {
                format!("{what}: the set yields object #{id}, which has already been destroyed")
            });
        }
        let n = ids.len();
        ids.sort_unstable();
        ids.dedup();
        cx.check(pm, ids.len() == n, || format!("{what}: the same object is stored twice: {seen:?}"));
    }
    if unique {
        for (i, k) in seen.iter().enumerate() {
            for k2 in &seen[..i] {
                cx.check(pm, k.k != k2.k, || format!("{what}: two equal elements {k} and {k2} are stored"));
            }
        }
    }
    flush_ledger(cx, pm, what);
    seen
}

pub fn exercise_and_drop_set<K: KeyT, const N: usize>(mut bx: Box<Canary<Set<K, N>>>, nk: u8, cx: &mut Ctx, pm: PMask, lawful: bool) {
    let what = "using the surviving set";
    cx.check(pm, bx.intact(), || "a canary next to the container was overwritten".to_string());
    let seen = wellformed_set(&bx.c, cx, pm, lawful, "after the unwinding");
    let s = &mut bx.c;
    if lawful {
        for k in 0..nk {
            let probe = K::mk(k, 0);
            let has = seen.iter().any(|kd| kd.k == k);
            let got = s.contains::<K>(&probe);
            cx.check(pm, got == has, || format!("{what}: contains(k{k}) is {got} but iteration shows {has}"));
        }
        if s.len() < N {
            if let Some(k) = (0..nk).find(|k| !seen.iter().any(|kd| kd.k == *k)) {
                let r = s.insert(K::mk(k, 0));
                cx.check(pm, r, || format!("{what}: insert of absent k{k} returned false"));
            }
        }
        wellformed_set(s, cx, pm, true, "after an insert into the surviving set");
        s.retain(|k| k.kd().k % 2 == 0);
        wellformed_set(s, cx, pm, true, "after retain on the surviving set");
        for k in 0..nk {
            let probe = K::mk(k, 0);
            let before = s.len();
            let r = s.remove::<K>(&probe);
            cx.check(pm, s.len() + usize::from(r) == before, || format!("{what}: remove(k{k}) inconsistent with len"));
        }
        cx.check(pm, s.is_empty(), || format!("{what}: not empty after removing every element"));
        for k in 0..(N as u8).min(nk) {
            s.insert(K::mk(k, 0));
        }
        cx.check(pm, s.len() == N.min(nk as usize), || format!("{what}: cannot be refilled to capacity"));
        s.clear();
        cx.check(pm, s.is_empty(), || format!("{what}: clear() left elements"));
    } else {
        s.retain(|k| k.kd().k % 2 == 0);
        wellformed_set(s, cx, pm, false, "after retain on the surviving set");
    }
    flush_ledger(cx, pm, what);
    cx.check(pm, bx.intact(), || "a canary next to the container was overwritten".to_string());
    drop(bx);
    flush_ledger(cx, pm, "dropping the surviving set");
}

/// An instrumented source iterator: items are created up front (fixed identities), every
/// `next` is a user callback (fuse position), and it records how it was pulled.
pub struct Src<T> {
    pub items: Vec<Option<T>>,
    pub pos: usize,
    pub calls: std::rc::Rc<std::cell::Cell<(u32, bool)>>,
    /// which (honest) `size_hint` the source reports - an environment answer, see `HINTS`
    pub hint: u8,
}
/// Number of size_hint behaviours of `Src`. Kinds 0-7 are honest (lower <= remaining <= upper):
/// 0 `(0, None)`, 1 exact, 2 `(remaining, None)`, 3 `(0, Some(remaining))`,
/// 4-7 `(0, Some(usize::MAX - j))` for j = 0, 1, 2, 3 (huge but true upper bounds, as adaptors such
/// as `take_while` over an unbounded range report them). Kinds 8-10 LIE - `size_hint` is advisory, a
/// safe iterator may report anything, and neither memory safety nor the panic-on-overflow contract may
/// depend on it: 8 `(0, Some(0))`, 9 `(0, Some(remaining - 1))`, 10 `(remaining + 1, Some(remaining + 1))`.
pub const HINTS: u8 = 11;
impl<T> Src<T> {
    pub fn new(items: Vec<T>) -> (Self, std::rc::Rc<std::cell::Cell<(u32, bool)>>) {
        Self::with_hint(items, 0)
    }
    pub fn with_hint(items: Vec<T>, hint: u8) -> (Self, std::rc::Rc<std::cell::Cell<(u32, bool)>>) {
        let calls = std::rc::Rc::new(std::cell::Cell::new((0, false)));
        (
            Src {
                items: items.into_iter().map(Some).collect(),
                pos: 0,
                calls: calls.clone(),
                hint,
            },
            calls,
        )
    }
}
impl<T> Iterator for Src<T> {
    type Item = T;
    fn size_hint(&self) -> (usize, Option<usize>) {
        let rem = self.items.len().saturating_sub(self.pos);
        match self.hint {
            0 => (0, None),
            1 => (rem, Some(rem)),
            2 => (rem, None),
            3 => (0, Some(rem)),
            8 => (0, Some(0)),
            9 => (0, Some(rem.saturating_sub(1))),
            10 => (rem + 1, Some(rem + 1)),
            j => (0, Some(usize::MAX - (j as usize - 4))),
        }
    }
    fn next(&mut self) -> Option<T> {
        pl::tick(pl::Cb::SrcNext);
        let (n, after_none) = self.calls.get();
        if self.pos >= self.items.len() {
            // second value: next() was called again after the iterator had returned None
            self.calls.set((n + 1, after_none || self.pos > self.items.len()));
            self.pos = self.items.len() + 1;
            None
        } else {
            self.calls.set((n + 1, after_none));
            let it = self.items[self.pos].take();
            self.pos += 1;
            it
        }
    }
}
