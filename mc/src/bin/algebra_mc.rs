//! algebra_mc (C08): all ordered pairs (L, R) where each side ranges over every subset of the
//! universe in every internal order, for several capacity pairs; union, intersection,
//! difference, symmetric_difference, difference_ref, `-`, is_subset, is_superset, is_disjoint;
//! for each lazy iterator every consumption prefix (size_hint brackets, fold == next, clones
//! continue identically, None is sticky), operands unchanged, left operand's own elements.

use mc::bfs::par_states;
use mc::ctx::*;
use mc::json::J;
use mc::mapsys::flush_ledger;
use mc::payload::{self as pl, Kx, KD};
use micromap::Set;
use std::collections::BTreeSet;

const PM: PMask = C08;

fn arrangements(k: u8, max_len: usize) -> Vec<Vec<u8>> {
    let mut out = vec![vec![]];
    let mut frontier: Vec<Vec<u8>> = vec![vec![]];
    for _ in 0..max_len.min(k as usize) {
        let mut next = Vec::new();
        for a in &frontier {
            for x in 0..k {
                if !a.contains(&x) {
                    let mut b = a.clone();
                    b.push(x);
                    next.push(b);
                }
            }
        }
        out.extend(next.iter().cloned());
        frontier = next;
    }
    out
}

fn build<const N: usize>(arr: &[u8], tag: u8) -> Box<Canary<Set<Kx, N>>> {
    let mut bx = Canary::boxed(Set::<Kx, N>::new());
    for k in arr {
        bx.c.insert(Kx::new(*k, tag));
    }
    if mc::mapsys::stale() {
        // dead slots hold stale copies of destroyed elements (fill with keys outside the universe, pop them)
        let free = N - bx.c.len().min(N);
        let codes: Vec<u8> = (40..40 + free as u8).collect();
        for c in &codes {
            bx.c.insert(Kx::new(*c, tag));
        }
        for c in codes.iter().rev() {
            bx.c.remove::<u8>(c);
        }
    }
    bx
}

fn descs<const N: usize>(s: &Set<Kx, N>) -> Vec<KD> {
    s.iter().map(|k| k.desc()).collect()
}

/// Judge one lazy iterator kind, produced afresh by `mk` as often as needed.
fn judge_lazy<'a, I>(cx: &mut Ctx, name: &str, mk: &dyn Fn() -> I, want: &BTreeSet<u8>, left_range: Option<(usize, usize)>)
where
    I: Iterator<Item = &'a Kx> + Clone,
{
    let full: Vec<KD> = mk().map(|k| k.desc()).collect();
    let keys: Vec<u8> = full.iter().map(|k| k.k).collect();
    let as_set: BTreeSet<u8> = keys.iter().copied().collect();
    cx.check(PM, as_set.len() == keys.len(), || format!("{name}: an element is repeated: {full:?}"));
    cx.check(PM, as_set == *want, || format!("{name}: yields {keys:?} but the mathematical result is {want:?}"));
    if let Some((lo, hi)) = left_range {
        for k in mk() {
            let a = k as *const Kx as usize;
            cx.check(PM, a >= lo && a + std::mem::size_of::<Kx>() <= hi && k.tag == 0, || {
                format!("{name}: yields an element that is not the left operand's own ({:?} at {a:#x})", k.desc())
            });
        }
    }
    let n = full.len();
    // every consumption prefix
    for j in 0..=n + 1 {
        let mut it = mk();
        let mut consumed = 0usize;
        for _ in 0..j {
            let rem = n - consumed.min(n);
            let (lo, hi) = it.size_hint();
            cx.check(PM, lo <= rem && hi.is_none_or(|h| rem <= h), || {
                format!("{name}: after {consumed} of {n} items size_hint is ({lo}, {hi:?}) but {rem} items are still to come")
            });
            match it.next() {
                Some(k) => {
                    let d = k.desc();
                    cx.check(PM, consumed < n && d == full[consumed.min(n.saturating_sub(1))], || {
                        format!("{name}: item {consumed} is {d:?} on one traversal and {:?} on another", full.get(consumed))
                    });
                    consumed += 1;
                }
                None => {
                    cx.check(PM, consumed == n, || format!("{name}: ended after {consumed} of {n} items"));
                }
            }
        }
        let consumed = consumed.min(n);
        let rem = n - consumed;
        let (lo, hi) = it.size_hint();
        cx.check(PM, lo <= rem && hi.is_none_or(|h| rem <= h), || {
            format!("{name}: after {consumed} of {n} items size_hint is ({lo}, {hi:?}) but {rem} items are still to come")
        });
        // a clone continues identically; fold gives what stepping gives; count agrees
        let by_clone: Vec<KD> = it.clone().map(|k| k.desc()).collect();
        let by_fold: Vec<KD> = it.clone().fold(Vec::new(), |mut acc, k| {
            acc.push(k.desc());
            acc
        });
        let by_count = it.clone().count();
        let mut stepped: Vec<KD> = Vec::new();
        let mut it2 = it;
        while let Some(k) = it2.next() {
            stepped.push(k.desc());
            if stepped.len() > n + 2 {
                break;
            }
        }
        for _ in 0..3 {
            let more = it2.next().is_some();
            cx.check(PM, !more, || format!("{name}: yields an item after having returned None"));
        }
        let (lo, hi) = it2.size_hint();
        cx.check(PM, lo == 0 && hi.is_none_or(|_| true), || format!("{name}: exhausted but size_hint lower bound is {lo}"));
        cx.check(PM, stepped[..] == full[consumed..], || {
            format!("{name}: after {consumed} items stepping yields {stepped:?}, a fresh traversal {:?}", &full[consumed..])
        });
        cx.check(PM, by_clone == stepped, || format!("{name}: a clone taken after {consumed} items yields {by_clone:?}, the original {stepped:?}"));
        cx.check(PM, by_fold == stepped, || format!("{name}: fold after {consumed} items gives {by_fold:?}, stepping gives {stepped:?}"));
        cx.check(PM, by_count == stepped.len(), || format!("{name}: count() after {consumed} items is {by_count}, stepping yields {}", stepped.len()));
    }
}

fn run_pair<const N: usize, const M: usize>(cx: &mut Ctx, la: &[u8], ra: &[u8]) {
    pl::reset();
    cx.evaluations += 1;
    if !la.is_empty() || !ra.is_empty() {
        cx.nontrivial += 1;
    }
    cx.here.op = format!("set-algebra L={la:?} (cap {N}) R={ra:?} (cap {M})");
    let l = build::<N>(la, 0);
    let r = build::<M>(ra, 1);
    let ls: BTreeSet<u8> = la.iter().copied().collect();
    let rs: BTreeSet<u8> = ra.iter().copied().collect();
    let before_l = descs(&l.c);
    let before_r = descs(&r.c);
    let counts0 = pl::counts();
    let lr = l.range();
    {
        let (l, r) = (&l.c, &r.c);
        judge_lazy(cx, "union", &|| l.union(r), &ls.union(&rs).copied().collect(), None);
        judge_lazy(cx, "intersection", &|| l.intersection(r), &ls.intersection(&rs).copied().collect(), Some(lr));
        judge_lazy(cx, "difference", &|| l.difference(r), &ls.difference(&rs).copied().collect(), Some(lr));
        judge_lazy(cx, "symmetric_difference", &|| l.symmetric_difference(r), &ls.symmetric_difference(&rs).copied().collect(), None);
        // the other direction of the same pair exercises the swapped const parameters
        judge_lazy(cx, "difference (R-L)", &|| r.difference(l), &rs.difference(&ls).copied().collect(), None);
        let sub = l.is_subset(r);
        cx.check(PM, sub == ls.is_subset(&rs), || format!("is_subset is {sub}"));
        let sup = l.is_superset(r);
        cx.check(PM, sup == ls.is_superset(&rs), || format!("is_superset is {sup}"));
        let dis = l.is_disjoint(r);
        cx.check(PM, dis == ls.is_disjoint(&rs), || format!("is_disjoint is {dis}"));
        cx.class(&format!("subset={sub} superset={sup} disjoint={dis}"));
    }
    // no element was cloned or destroyed by the lazy iterators and predicates
    let counts1 = pl::counts();
    cx.check(PM, counts1[pl::Cb::Clone as usize] == counts0[pl::Cb::Clone as usize] && counts1[pl::Cb::Drop as usize] == counts0[pl::Cb::Drop as usize], || {
        "a lazy set operation cloned or destroyed an element".to_string()
    });
    // difference_ref on sets of references
    {
        let lpool: Vec<Kx> = la.iter().map(|k| Kx::new(*k, 0)).collect();
        let rpool: Vec<Kx> = ra.iter().map(|k| Kx::new(*k, 1)).collect();
        let mut lref: Set<&Kx, N> = Set::new();
        for k in &lpool {
            lref.insert(k);
        }
        let mut rref: Set<&Kx, M> = Set::new();
        for k in &rpool {
            rref.insert(k);
        }
        let want: BTreeSet<u8> = ls.difference(&rs).copied().collect();
        let lo = lpool.as_ptr() as usize;
        let hi = lo + lpool.len() * std::mem::size_of::<Kx>();
        judge_lazy(cx, "difference_ref", &|| lref.difference_ref(&rref), &want, if lpool.is_empty() { None } else { Some((lo, hi)) });
    }
    // the '-' operator: a new set of the left capacity holding one clone of each element
    {
        let c0 = pl::counts();
        let first_new = pl::next_id();
        let d: Set<Kx, N> = &l.c - &r.c;
        let c1 = pl::counts();
        let got = descs(&d);
        let want: BTreeSet<u8> = ls.difference(&rs).copied().collect();
        let keys: BTreeSet<u8> = got.iter().map(|k| k.k).collect();
        cx.check(PM, keys == want && got.len() == want.len(), || format!("L - R is {got:?} but the mathematical result is {want:?}"));
        // (how many clones `-` makes on the way is not fixed by the property: only that the result holds
        // its own, fresh copies of left elements and that the operands are untouched)
        let _ = (c0, c1);
        for k in &got {
            let o = pl::obj(k.id).unwrap();
            let from_left = before_l.iter().any(|b| b.id == o.clone_of);
            cx.check(PM, k.id >= first_new && from_left && k.tag == 0, || format!("L - R holds {k:?}, which is not a fresh clone of a left element"));
        }
        cx.check(PM, d.capacity() == N, || "L - R does not have the left capacity".to_string());
        drop(d);
    }
    // operands are unchanged (same objects, same order)
    cx.check(PM, descs(&l.c) == before_l && descs(&r.c) == before_r, || "an operand was modified by a set operation".to_string());
    cx.check(PM, l.intact() && r.intact(), || "a canary next to an operand was overwritten".to_string());
    flush_ledger(cx, PM | C02, "set algebra");
    cx.sample(|| J::obj().set("left", format!("{la:?}")).set("right", format!("{ra:?}")).set("capacities", format!("({N},{M})")));
    drop(l);
    drop(r);
    flush_ledger(cx, PM | C02, "dropping the operands");
}

/// difference_ref on an *unsized* element type whose elements alias in memory: the universe is
/// a family of pairwise different sub-slices of one static buffer, several of which start at the
/// same address (prefixes) - equal addresses, unequal elements - and both operands draw from it.
static SLICE_BUF: [u8; 4] = [1, 2, 3, 4];
fn slice_universe(k: u8) -> Vec<&'static [u8]> {
    let b = &SLICE_BUF;
    let all: [&'static [u8]; 6] = [&b[0..0], &b[0..1], &b[0..2], &b[1..2], &b[0..3], &b[1..3]];
    all[..(k as usize).min(6)].to_vec()
}
fn slice_index(u: &[&'static [u8]], x: &[u8]) -> Option<usize> {
    u.iter().position(|e| std::ptr::eq(e.as_ptr(), x.as_ptr()) && e.len() == x.len())
}
fn run_slice_pair<const N: usize, const M: usize>(cx: &mut Ctx, la: &[u8], ra: &[u8], k: u8) {
    let u = slice_universe(k);
    cx.evaluations += 1;
    if !la.is_empty() || !ra.is_empty() {
        cx.nontrivial += 1;
    }
    cx.here.op = format!("difference_ref on Set<&[u8]> (aliasing sub-slices) L={la:?} (cap {N}) R={ra:?} (cap {M})");
    let mut l: Set<&[u8], N> = Set::new();
    for i in la {
        l.insert(u[*i as usize]);
    }
    let mut r: Set<&[u8], M> = Set::new();
    for i in ra {
        r.insert(u[*i as usize]);
    }
    let lorder: Vec<usize> = l.iter().filter_map(|x| slice_index(&u, x)).collect();
    cx.check(PM, lorder.len() == la.len(), || "the left operand does not hold its elements".to_string());
    let want: Vec<usize> = lorder.iter().copied().filter(|i| !ra.contains(&(*i as u8))).collect();
    let n = want.len();
    let full: Vec<Option<usize>> = l.difference_ref(&r).map(|x| slice_index(&u, x)).collect();
    cx.check(PM, full.iter().all(|x| x.is_some()), || format!("difference_ref yields a slice that is not an element of the left operand: {full:?}"));
    let got: Vec<usize> = full.iter().flatten().copied().collect();
    cx.check(PM, got == want, || format!("difference_ref yields elements #{got:?} but the mathematical result (in left order) is #{want:?} (universe {u:?})"));
    for j in 0..=n + 1 {
        let mut it = l.difference_ref(&r);
        let mut consumed = 0usize;
        for _ in 0..j {
            let rem = n.saturating_sub(consumed);
            let (lo, hi) = it.size_hint();
            cx.check(PM, lo <= rem && hi.is_none_or(|h| rem <= h), || {
                format!("difference_ref: after {consumed} of {n} items size_hint is ({lo}, {hi:?}) but {rem} are still to come")
            });
            if it.next().is_some() {
                consumed += 1;
            }
        }
        let rem = n.saturating_sub(consumed);
        let (lo, hi) = it.size_hint();
        cx.check(PM, lo <= rem && hi.is_none_or(|h| rem <= h), || {
            format!("difference_ref: after {consumed} of {n} items size_hint is ({lo}, {hi:?}) but {rem} are still to come")
        });
        // (DifferenceRef over an unsized element type is not Clone: use fresh iterators advanced equally)
        let advanced = |c: usize| {
            let mut i2 = l.difference_ref(&r);
            for _ in 0..c {
                i2.next();
            }
            i2
        };
        let by_fold: Vec<Option<usize>> = advanced(consumed).fold(Vec::new(), |mut a, x| {
            a.push(slice_index(&u, x));
            a
        });
        let by_clone: Vec<Option<usize>> = advanced(consumed).map(|x| slice_index(&u, x)).collect();
        let stepped: Vec<Option<usize>> = it.map(|x| slice_index(&u, x)).collect();
        let tail: Vec<Option<usize>> = want[consumed.min(n)..].iter().map(|i| Some(*i)).collect();
        cx.check(PM, stepped == tail && by_fold == tail && by_clone == tail, || {
            format!("difference_ref after {consumed} items: next gives {stepped:?}, fold {by_fold:?}, a second iterator advanced equally {by_clone:?}; expected {tail:?}")
        });
    }
    // the same operands through the other set operations (element type &[u8])
    let mut inter: Vec<usize> = l.intersection(&r).filter_map(|x| slice_index(&u, x)).collect();
    inter.sort_unstable();
    let mut wi: Vec<usize> = lorder.iter().copied().filter(|i| ra.contains(&(*i as u8))).collect();
    wi.sort_unstable();
    cx.check(PM, inter == wi, || format!("intersection on Set<&[u8]> yields #{inter:?}, expected #{wi:?}"));
    let nu = l.union(&r).count();
    let mut all: Vec<u8> = la.iter().chain(ra.iter()).copied().collect();
    all.sort_unstable();
    all.dedup();
    cx.check(PM, nu == all.len(), || format!("union on Set<&[u8]> yields {nu} items, expected {}", all.len()));
    let sub = l.is_subset(&r);
    cx.check(PM, sub == la.iter().all(|i| ra.contains(i)), || format!("is_subset on Set<&[u8]> is {sub}"));
}

fn run_slice_caps<const N: usize, const M: usize>(rep: &mut EngineReport, k: u8, threads: usize) {
    let k = k.min(6);
    let ls = arrangements(k, N);
    let rs = arrangements(k, M);
    let config = format!("difference_ref over {k} aliasing sub-slices of one buffer: Set<&[u8],{N}> x Set<&[u8],{M}>, {} x {} arrangements", ls.len(), rs.len());
    let mut cx = rep.cx.fork();
    cx.here.config = config.clone();
    let t0 = std::time::Instant::now();
    let n = ls.len() * rs.len();
    par_states(n, threads, &mut cx, |i, lcx| {
        let la = &ls[i / rs.len()];
        let ra = &rs[i % rs.len()];
        lcx.here.path = vec![format!("L={la:?}"), format!("R={ra:?}")];
        lcx.here.path_idx = la.iter().map(|x| *x as u32).chain(std::iter::once(99)).chain(ra.iter().map(|x| *x as u32)).collect();
        lcx.here.extra = format!("caps={N},{M} slices");
        run_slice_pair::<N, M>(lcx, la, ra, k);
    });
    rep.configs.push(J::obj().set("config", config).set("pairs", n).set("wall_s", t0.elapsed().as_secs_f64()));
    rep.transitions += n as u64;
    rep.cx.merge(cx);
}

fn run_caps<const N: usize, const M: usize>(rep: &mut EngineReport, k: u8, threads: usize) {
    let ls = arrangements(k, N);
    let rs = arrangements(k, M);
    let config = format!("set algebra over universe {k}: Set<Kx,{N}> x Set<Kx,{M}>, {} x {} arrangements", ls.len(), rs.len());
    let mut cx = rep.cx.fork();
    cx.here.config = config.clone();
    let t0 = std::time::Instant::now();
    let n = ls.len() * rs.len();
    par_states(n, threads, &mut cx, |i, lcx| {
        let la = &ls[i / rs.len()];
        let ra = &rs[i % rs.len()];
        lcx.here.path = vec![format!("L={la:?}"), format!("R={ra:?}")];
        lcx.here.path_idx = la.iter().map(|x| *x as u32).chain(std::iter::once(99)).chain(ra.iter().map(|x| *x as u32)).collect();
        lcx.here.extra = format!("caps={N},{M}");
        run_pair::<N, M>(lcx, la, ra);
    });
    rep.configs.push(J::obj().set("config", config).set("pairs", n).set("wall_s", t0.elapsed().as_secs_f64()));
    rep.states += (ls.len() + rs.len()) as u64;
    rep.transitions += n as u64;
    rep.cx.merge(cx);
}

macro_rules! caps_for {
    ($k:expr, $rep:expr, $threads:expr, $K:literal, $K2:literal) => {{
        run_caps::<0, 0>($rep, $k, $threads);
        run_caps::<0, $K>($rep, $k, $threads);
        run_caps::<$K, 0>($rep, $k, $threads);
        run_caps::<$K, $K>($rep, $k, $threads);
        run_caps::<$K, $K2>($rep, $k, $threads);
        run_caps::<$K2, $K>($rep, $k, $threads);
        run_slice_caps::<$K, $K>($rep, $k, $threads);
        run_slice_caps::<$K, $K2>($rep, $k, $threads);
    }};
}

fn replay_pair(k: u8, caps: (usize, usize), la: &[u8], ra: &[u8], props: PMask) -> i32 {
    let mut cx = Ctx::new(props);
    cx.here.config = format!("set algebra over universe {k}");
    cx.here.path = vec![format!("L={la:?}"), format!("R={ra:?}")];
    macro_rules! go {
        ($($n:literal,$m:literal);*) => { match caps { $( ($n, $m) => run_pair::<$n, $m>(&mut cx, la, ra), )* _ => { eprintln!("capacity pair not instantiated"); return 2; } } };
    }
    go!(0,0; 0,2; 2,0; 2,2; 2,4; 4,2; 0,3; 3,0; 3,3; 3,5; 5,3; 0,4; 4,0; 4,4; 4,6; 6,4; 0,5; 5,0; 5,5; 5,7; 7,5);
    let v: Vec<J> = cx.best.iter().flatten().map(|b| b.to_json()).collect();
    let n = v.len();
    println!("{}", J::obj().set("config", cx.here.config.clone()).set("violations", J::Arr(v)).dump());
    i32::from(n > 0)
}

fn main() {
    let args = Args::from_env();
    silence_panics();
    install_crash_handler(args.get("crumb"));
    let mut rep = EngineReport::new("algebra_mc", args.props());
    let ks = args.list_usize("k", &[2, 4]);
    let threads = args.threads();
    if let Some(p) = args.get("replay-path") {
        let idx = mc::bfs::parse_idx_list(p);
        let pos = idx.iter().position(|x| *x == 99).unwrap_or(idx.len());
        let la: Vec<u8> = idx[..pos].iter().map(|x| *x as u8).collect();
        let ra: Vec<u8> = idx[(pos + 1).min(idx.len())..].iter().map(|x| *x as u8).collect();
        let caps: Vec<usize> = args
            .get("replay-extra")
            .and_then(|e| e.split("caps=").nth(1).map(|c| c.split(',').filter_map(|x| x.trim().parse().ok()).collect()))
            .unwrap_or_default();
        let k = ks[ks.len() - 1] as u8;
        std::process::exit(replay_pair(k, (caps[0], caps[1]), &la, &ra, args.props()));
    }
    for k in ks {
        match k {
            2 => caps_for!(2, &mut rep, threads, 2, 4),
            3 => caps_for!(3, &mut rep, threads, 3, 5),
            4 => caps_for!(4, &mut rep, threads, 4, 6),
            5 => caps_for!(5, &mut rep, threads, 5, 7),
            _ => panic!("universe size {k} is not instantiated"),
        }
    }
    std::process::exit(rep.finish(args.get("out")));
}
