//! disjoint_mc (C13, C18): every distinct state x every key tuple of length J in 0..=4 over
//! the universe (present and absent, with and without repeats, every order), through `&Kx`
//! and through the borrowed form `&u8`.
//!  C13: pairwise different keys -> position i holds exactly what get_mut(k_i) returns
//!       (same address), all addresses distinct and inside the map, writes through them are
//!       what later lookups see, nothing else changes; two equal present keys -> panic, map
//!       unchanged; two equal absent keys -> either outcome (the property is silent).
//!  C18: get_disjoint_unchecked_mut on pairwise different tuples == get_disjoint_mut.

use mc::bfs::{bfs, par_states, Caps};
use mc::ctx::*;
use mc::json::J;
use mc::mapsys::{entries_of, flush_ledger, invariants, Alpha, MapSys};
use mc::payload::{self as pl, Kx, ValT, Vx};
use micromap::Map;
use std::panic::{catch_unwind, AssertUnwindSafe};

fn tuples(nk: u8, j: usize) -> Vec<Vec<u8>> {
    let mut out = vec![vec![]];
    for _ in 0..j {
        let mut next = Vec::new();
        for t in &out {
            for k in 0..nk {
                let mut u = t.clone();
                u.push(k);
                next.push(u);
            }
        }
        out = next;
    }
    out
}

struct Outcome {
    panicked: bool,
    /// per position: address of the returned reference (None for None)
    addrs: Vec<Option<usize>>,
}

/// Call get_disjoint_mut (or the unchecked variant) with J keys; write `base + i` through
/// position i when `write` is set.
fn call<const N: usize, const JN: usize>(m: &mut Map<Kx, Vx, N>, keys: &[u8], pos_probes: &[Vec<Kx>], by_q: bool, unchecked: bool, write: Option<u8>) -> Outcome {
    let r = catch_unwind(AssertUnwindSafe(|| {
        let mut addrs = Vec::with_capacity(JN);
        if by_q {
            let ks: [&u8; JN] = std::array::from_fn(|i| &keys[i]);
            let res = if unchecked { unsafe { m.get_disjoint_unchecked_mut(ks) } } else { m.get_disjoint_mut(ks) };
            for (i, r) in res.into_iter().enumerate() {
                addrs.push(r.map(|x| {
                    if let Some(b) = write {
                        x.set((b + i as u8) % 8);
                    }
                    x as *mut Vx as usize
                }));
            }
        } else {
            let ks: [&Kx; JN] = std::array::from_fn(|i| &pos_probes[i][keys[i] as usize]);
            let res = if unchecked { unsafe { m.get_disjoint_unchecked_mut(ks) } } else { m.get_disjoint_mut(ks) };
            for (i, r) in res.into_iter().enumerate() {
                addrs.push(r.map(|x| {
                    if let Some(b) = write {
                        x.set((b + i as u8) % 8);
                    }
                    x as *mut Vx as usize
                }));
            }
        }
        addrs
    }));
    match r {
        Ok(addrs) => Outcome { panicked: false, addrs },
        Err(_) => Outcome { panicked: true, addrs: Vec::new() },
    }
}

fn per_state_j<const N: usize, const JN: usize>(sys: &MapSys<Kx, Vx, N>, path: &[u32], cx: &mut Ctx) {
    let mut b = sys.build(path, cx);
    let nk = sys.nk;
    let range = b.bx.range();
    let pos_probes: Vec<Vec<Kx>> = (0..JN.max(1)).map(|i| (0..nk).map(|k| Kx::new(k, (i % 2) as u8)).collect()).collect();
    for keys in tuples(nk, JN) {
        let present = |k: u8| b.model.m.contains_key(&k);
        let mut dup_present = false;
        let mut dup_absent = false;
        for i in 0..JN {
            for j in 0..i {
                if keys[i] == keys[j] {
                    if present(keys[i]) {
                        dup_present = true;
                    } else {
                        dup_absent = true;
                    }
                }
            }
        }
        for by_q in [false, true] {
            cx.here.op = format!("get_disjoint_mut({keys:?}) via {}", if by_q { "&u8" } else { "&Kx" });
            cx.here.op_idx = JN as u32;
            cx.evaluations += 1;
            if !b.model.m.is_empty() && JN > 0 {
                cx.nontrivial += 1;
            }
            let before = entries_of(&b.bx.c);
            // what get_mut says, per key
            let want: Vec<Option<usize>> = keys.iter().map(|k| b.bx.c.get_mut::<u8>(k).map(|r| r as *mut Vx as usize)).collect();
            let out = call::<N, JN>(&mut b.bx.c, &keys, &pos_probes, by_q, false, None);
            if dup_present {
                cx.class("equal present keys");
                cx.check(C13, out.panicked, || format!("two equal present keys in {keys:?} did not panic; returned {:x?}", out.addrs));
                let after = entries_of(&b.bx.c);
                cx.check(C13, after == before, || "the map changed although the call panicked".to_string());
            } else if dup_absent {
                cx.class(if out.panicked { "equal absent keys: panicked" } else { "equal absent keys: returned" });
                if !out.panicked {
                    cx.check(C13, out.addrs == want, || format!("returned {:x?} but get_mut gives {want:x?}", out.addrs));
                }
            } else {
                cx.class("pairwise different keys");
                cx.check(C13, !out.panicked, || format!("pairwise different keys {keys:?} panicked"));
                if !out.panicked {
                    cx.check(C13, out.addrs == want, || format!("returned {:x?} but get_mut gives {want:x?} for {keys:?}", out.addrs));
                    let mut a: Vec<usize> = out.addrs.iter().flatten().copied().collect();
                    let n = a.len();
                    a.sort_unstable();
                    a.dedup();
                    cx.check(C13 | C17, a.len() == n, || format!("two returned references alias: {:x?}", out.addrs));
                    for x in &a {
                        cx.check(C13 | C06, *x >= range.0 && x + std::mem::size_of::<Vx>() <= range.1, || {
                            format!("returned reference {x:#x} lies outside the map {range:x?}")
                        });
                    }
                    // writes through the references are exactly what lookups see afterwards
                    let saved: Vec<(u8, u8)> = before.iter().map(|(k, v)| (k.k, v.v)).collect();
                    let w = call::<N, JN>(&mut b.bx.c, &keys, &pos_probes, by_q, false, Some(3));
                    cx.check(C13, !w.panicked && w.addrs == want, || "second call differs from the first".to_string());
                    for (kk, vv) in &saved {
                        let expect = keys.iter().position(|x| x == kk).map(|i| (3 + i as u8) % 8).unwrap_or(*vv);
                        let got = b.bx.c.get::<u8>(kk).map(|v| v.desc().v);
                        cx.check(C13, got == Some(expect), || format!("after writing through get_disjoint_mut({keys:?}), get(k{kk}) is {got:?}, expected {expect}"));
                    }
                    // restore
                    for (kk, vv) in &saved {
                        if let Some(r) = b.bx.c.get_mut::<u8>(kk) {
                            r.set(*vv);
                        }
                    }
                    // C18: the unchecked variant behaves exactly like the safe one (contract holds).
                    // Only called when C18 is being judged, and its ledger events are kept apart.
                    if cx.enabled & C18 != 0 {
                        flush_ledger(cx, C13 | C02, "get_disjoint_mut");
                        let u = call::<N, JN>(&mut b.bx.c, &keys, &pos_probes, by_q, true, None);
                        cx.check(C18, !u.panicked && u.addrs == out.addrs, || {
                            format!("get_disjoint_unchecked_mut({keys:?}) gives {:x?} (panicked: {}), get_disjoint_mut gives {:x?}", u.addrs, u.panicked, out.addrs)
                        });
                        flush_ledger(cx, C18, "get_disjoint_unchecked_mut");
                    }
                    let after = entries_of(&b.bx.c);
                    cx.check(C13 | C18, after == before, || "the map changed (beyond the restored writes)".to_string());
                }
            }
            cx.check(C13 | C18 | C17, b.bx.intact(), || "a canary next to the container was overwritten".to_string());
            flush_ledger(cx, C13 | C02, "get_disjoint_mut");
        }
    }
    invariants(&b.bx.c, cx, C13);
    cx.sample(|| J::obj().set("state", format!("{:?}", b.model.m.keys().collect::<Vec<_>>())).set("tuples_of_length", JN).set("count", tuples(nk, JN).len()));
    drop(pos_probes);
    let mc::mapsys::Built { bx, probes, .. } = b;
    drop(bx);
    drop(probes);
    flush_ledger(cx, C02 | C13, "dropping the container");
}

fn run_n<const N: usize>(rep: &mut EngineReport, nk: u8, nv: u8, maxj: usize, threads: usize, replay: Option<Vec<u32>>) -> i32 {
    let sys = MapSys::<Kx, Vx, N>::new(nk, nv, Alpha::Gen);
    let config = format!("get_disjoint_mut on Map<Kx,Vx,{N}> keys={} values={} J<=4", sys.nk, sys.nv);
    let all_j = |path: &[u32], cx: &mut Ctx| {
        per_state_j::<N, 0>(&sys, path, cx);
        per_state_j::<N, 1>(&sys, path, cx);
        per_state_j::<N, 2>(&sys, path, cx);
        if maxj >= 3 {
            per_state_j::<N, 3>(&sys, path, cx);
        }
        if maxj >= 4 {
            per_state_j::<N, 4>(&sys, path, cx);
        }
    };
    if let Some(path) = replay {
        let mut cx = Ctx::new(rep.cx.enabled);
        cx.here.config = config.clone();
        cx.here.path = path.iter().map(|i| sys.ops[*i as usize].to_string()).collect();
        all_j(&path, &mut cx);
        let v: Vec<J> = cx.best.iter().flatten().map(|b| b.to_json()).collect();
        let n = v.len();
        println!("{}", J::obj().set("config", config).set("violations", J::Arr(v)).dump());
        return i32::from(n > 0);
    }
    let t0 = std::time::Instant::now();
    let mut q = Ctx::new(0);
    let out = bfs(&sys, threads, &Caps::default(), &mut q);
    let mut cx = rep.cx.fork();
    cx.here.config = config.clone();
    par_states(out.states.len(), threads, &mut cx, |s, lcx| {
        let path = out.path_of(s);
        lcx.here.path_idx = path.clone();
        lcx.here.path = path.iter().map(|i| sys.ops[*i as usize].to_string()).collect();
        crumb("disjoint_mc state");
        all_j(&path, lcx);
    });
    rep.configs.push(J::obj().set("config", config).set("states", out.states.len()).set("wall_s", t0.elapsed().as_secs_f64()));
    rep.states += out.states.len() as u64;
    rep.transitions += cx.evaluations;
    rep.cx.merge(cx);
    let _ = pl::next_id();
    0
}

fn main() {
    let args = Args::from_env();
    silence_panics();
    install_crash_handler(args.get("crumb"));
    let mut rep = EngineReport::new("disjoint_mc", args.props());
    let ns = args.list_usize("n", &[0, 1, 2, 3]);
    let nv = args.usize("v", 2) as u8;
    let maxj = args.usize("j", 4);
    let threads = args.threads();
    if let Some(p) = args.get("replay-path") {
        let path = mc::bfs::parse_idx_list(p);
        let n = ns[0];
        let code = mc::with_n!(n, run_n::<>(&mut rep, (n + 1) as u8, nv, maxj, threads, Some(path)));
        std::process::exit(code);
    }
    for n in ns {
        mc::with_n!(n, run_n::<>(&mut rep, (n + 1) as u8, nv, maxj, threads, None));
    }
    for c in ["equal present keys", "pairwise different keys"] {
        if rep.cx.classes.get(c).copied().unwrap_or(0) == 0 && rep.cx.enabled & (C13 | C18) != 0 {
            rep.cx.machinery(format!("vacuity: no tuple of class '{c}'"));
        }
    }
    std::process::exit(rep.finish(args.get("out")));
}
