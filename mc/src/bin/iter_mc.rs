//! iter_mc: every distinct state (all layouts, including those produced only by removals)
//! x every iterator kind x every step of consumption.
//!  C09: borrowing iterators (iter, iter_mut, keys, values, values_mut, Set::iter and the
//!       IntoIterator impls for references): exact lengths, each entry once, fused, same order
//!       twice, clones continue identically, writes through iter_mut/values_mut are what lookups
//!       return.
//!  C10: consuming iterators and drains x every number of items taken x {drop, forget}:
//!       exact contents and lengths, drain always empties, container reusable afterwards.
//!  C02: ownership ledger over all of the above (each element destroyed exactly once; leaks
//!       only for not-yet-yielded elements of a forgotten iterator).

use mc::bfs::{bfs, par_states, Caps};
use mc::ctx::*;
use mc::json::J;
use mc::mapsys::{check_live, flush_ledger, Alpha, MapSys};
use mc::payload::{self as pl, KeyT, Kx, ValT, Vx, KD, VD};
use mc::setsys::{SAlpha, SetSys};
use micromap::{Map, Set};
use std::panic::{catch_unwind, AssertUnwindSafe};

type Obs = (Option<KD>, Option<VD>);

/// Walk a borrowing iterator: lengths before every step, fused end, yields == want.
macro_rules! walk {
    ($cx:expr, $pm:expr, $name:expr, $mk:expr, $proj:expr, $want:expr) => {{
        let want: &Vec<Obs> = $want;
        let total = want.len();
        let mut it = $mk;
        let mut got: Vec<Obs> = Vec::new();
        loop {
            let rem = total.saturating_sub(got.len());
            let l = ExactSizeIterator::len(&it);
            let sh = it.size_hint();
            $cx.check($pm, l == rem && sh == (rem, Some(rem)), || {
                format!("{}: after {} items len() is {l} and size_hint {sh:?}, but {rem} items are still to come", $name, got.len())
            });
            match it.next() {
                Some(x) => {
                    got.push(($proj)(x));
                    if got.len() > total + 2 {
                        break;
                    }
                }
                None => break,
            }
        }
        for _ in 0..3 {
            // after the end: no items to come, and the lengths say so (also after further calls)
            let l = ExactSizeIterator::len(&it);
            let sh = it.size_hint();
            $cx.check($pm, l == 0 && sh == (0, Some(0)), || format!("{}: exhausted, yet len() is {l} and size_hint {sh:?}", $name));
            let more = it.next().is_some();
            $cx.check($pm, !more, || format!("{}: yields an item after having returned None", $name));
        }
        let l = ExactSizeIterator::len(&it);
        $cx.check($pm, l == 0 && it.size_hint() == (0, Some(0)), || format!("{}: after repeated next() past the end len() is {l}", $name));
        let mut sorted = got.clone();
        sorted.sort();
        $cx.check($pm | C02, sorted == *want, || format!("{}: yields {got:?} but the stored entries are {want:?}", $name));
        got
    }};
}

/// count() after j steps, for every j.
macro_rules! counts {
    ($cx:expr, $pm:expr, $name:expr, $mk:expr, $total:expr) => {{
        for j in 0..=$total {
            let mut it = $mk;
            for _ in 0..j {
                it.next();
            }
            let c = it.count();
            $cx.check($pm, c == $total - j, || format!("{}: count() after {j} of {} items is {c}", $name, $total));
        }
    }};
}

/// A clone taken after j steps continues exactly like the original.
macro_rules! clones {
    ($cx:expr, $pm:expr, $name:expr, $mk:expr, $proj:expr, $order:expr) => {{
        let order: &Vec<Obs> = $order;
        for j in 0..=order.len() {
            let mut it = $mk;
            for _ in 0..j {
                it.next();
            }
            let c = it.clone();
            let a: Vec<Obs> = it.map($proj).collect();
            let b: Vec<Obs> = c.map($proj).collect();
            $cx.check($pm, a == b && a[..] == order[j.min(order.len())..], || {
                format!("{}: a clone taken after {j} items continues with {b:?}, the original with {a:?}, a fresh traversal with {:?}", $name, &order[j..])
            });
        }
    }};
}

/// Provided iterator methods that an implementation may override (nth, last, fold, ...) must
/// agree with stepping by next(): for every prefix j and every n.
macro_rules! derived {
    ($cx:expr, $pm:expr, $name:expr, $mk:expr, $proj:expr, $order:expr) => {{
        let order: &Vec<Obs> = $order;
        let total = order.len();
        for j in 0..=total {
            for n in 0..=(total - j + 1) {
                let mut it = $mk;
                for _ in 0..j {
                    it.next();
                }
                let r = it.nth(n).map($proj);
                let want = order.get(j + n).copied();
                $cx.check($pm, r == want, || format!("{}: after {j} items nth({n}) gives {r:?}, stepping gives {want:?}", $name));
                let rem = total.saturating_sub(j + n + 1);
                let l = ExactSizeIterator::len(&it);
                $cx.check($pm, l == rem, || format!("{}: after {j} items and nth({n}) len() is {l}, expected {rem}", $name));
                let nx = it.next().map($proj);
                let want = order.get(j + n + 1).copied();
                $cx.check($pm, nx == want, || format!("{}: after {j} items and nth({n}) next() gives {nx:?}, expected {want:?}", $name));
            }
            let mut it = $mk;
            for _ in 0..j {
                it.next();
            }
            let l = it.last().map($proj);
            let want = if j < total { order.last().copied() } else { None };
            $cx.check($pm, l == want, || format!("{}: after {j} items last() gives {l:?}, expected {want:?}", $name));
            let mut it = $mk;
            for _ in 0..j {
                it.next();
            }
            let folded: Vec<Obs> = it.fold(Vec::new(), |mut acc, x| {
                acc.push(($proj)(x));
                acc
            });
            $cx.check($pm, folded[..] == order[j..], || format!("{}: after {j} items fold visits {folded:?}, stepping gives {:?}", $name, &order[j..]));
            let mut it = $mk;
            for _ in 0..j {
                it.next();
            }
            let skipped: Vec<Obs> = it.skip(1).step_by(2).map($proj).collect();
            let want: Vec<Obs> = order[j..].iter().skip(1).step_by(2).copied().collect();
            $cx.check($pm, skipped == want, || format!("{}: after {j} items skip(1).step_by(2) gives {skipped:?}, expected {want:?}", $name));
        }
    }};
}

/// Provided iterator methods that stop early or consume through a callback (find, position, any,
/// all, find_map, for_each, min/max_by_key, reduce) are specialisation points too: for every
/// prefix j and every stopping position t (t == total: nothing matches) the callback must see
/// exactly the not-yet-yielded items, in order, each once; the result must be the item stepping
/// gives; and the iterator must continue exactly behind the item it stopped at.
#[derive(Debug, PartialEq, Clone, Copy)]
#[allow(dead_code)]
enum Res<O> {
    Item(Option<O>),
    Pos(Option<usize>),
    Bool(bool),
}

macro_rules! searching {
    ($cx:expr, $pm:expr, $name:expr, $mk:expr, $projr:expr, $order:expr) => {{
        let order = $order;
        let total = order.len();
        for j in 0..=total {
            for t in j..=total {
                for method in 0..5u8 {
                    let mut it = $mk;
                    for _ in 0..j {
                        it.next();
                    }
                    let mut seen = Vec::with_capacity(total);
                    let mut calls = 0usize;
                    let stop_at = t - j;
                    let (mname, got, want) = match method {
                        0 => {
                            let r = it.find(|x| {
                                seen.push(($projr)(x));
                                calls += 1;
                                calls - 1 == stop_at
                            });
                            ("find", Res::Item(r.map(|x| ($projr)(&x))), Res::Item(order.get(t).copied()))
                        }
                        1 => {
                            let r = it.position(|x| {
                                seen.push(($projr)(&x));
                                calls += 1;
                                calls - 1 == stop_at
                            });
                            ("position", Res::Pos(r), Res::Pos(if t < total { Some(stop_at) } else { None }))
                        }
                        2 => {
                            let r = it.any(|x| {
                                seen.push(($projr)(&x));
                                calls += 1;
                                calls - 1 == stop_at
                            });
                            ("any", Res::Bool(r), Res::Bool(t < total))
                        }
                        3 => {
                            let r = it.all(|x| {
                                seen.push(($projr)(&x));
                                calls += 1;
                                calls - 1 != stop_at
                            });
                            ("all", Res::Bool(r), Res::Bool(t >= total))
                        }
                        _ => {
                            let r = it.find_map(|x| {
                                seen.push(($projr)(&x));
                                calls += 1;
                                if calls - 1 == stop_at { Some(($projr)(&x)) } else { None }
                            });
                            ("find_map", Res::Item(r), Res::Item(order.get(t).copied()))
                        }
                    };
                    let upto = (t + 1).min(total);
                    $cx.check($pm, got == want, || format!("{}: after {j} items {mname}(stop at the {stop_at}th call) gives {got:?}, stepping gives {want:?}", $name));
                    $cx.check($pm, seen[..] == order[j..upto], || {
                        format!("{}: after {j} items {mname} showed its callback {seen:?}, the items to come were {:?}", $name, &order[j..upto])
                    });
                    let l = ExactSizeIterator::len(&it);
                    let sh = it.size_hint();
                    let rest: Vec<_> = it.map(|x| ($projr)(&x)).collect();
                    $cx.check($pm, rest[..] == order[upto..] && l == total - upto && sh == (l, Some(l)), || {
                        format!("{}: after {j} items and {mname} stopping at item {t}, len() is {l}, size_hint {sh:?} and the iterator continues with {rest:?}; expected {:?}", $name, &order[upto..])
                    });
                }
            }
            // consuming callbacks
            for method in 0..4u8 {
                let mut it = $mk;
                for _ in 0..j {
                    it.next();
                }
                let mut seen = Vec::with_capacity(total);
                let mut calls = 0usize;
                let (mname, got, want) = match method {
                    0 => {
                        it.for_each(|x| seen.push(($projr)(&x)));
                        ("for_each", Res::Bool(true), Res::Bool(true))
                    }
                    1 => {
                        let r = it.max_by_key(|x| {
                            seen.push(($projr)(x));
                            calls += 1;
                            calls
                        });
                        ("max_by_key(call number)", Res::Item(r.map(|x| ($projr)(&x))), Res::Item(order[j..].last().copied()))
                    }
                    2 => {
                        let r = it.min_by_key(|x| {
                            seen.push(($projr)(x));
                            calls += 1;
                            calls
                        });
                        ("min_by_key(call number)", Res::Item(r.map(|x| ($projr)(&x))), Res::Item(order[j..].first().copied()))
                    }
                    _ => {
                        let r = it.reduce(|a, b| {
                            seen.push(($projr)(&a));
                            calls += 1;
                            b
                        });
                        if let Some(x) = &r {
                            seen.push(($projr)(x));
                        }
                        ("reduce(keep the later)", Res::Item(r.map(|x| ($projr)(&x))), Res::Item(order[j..].last().copied()))
                    }
                };
                $cx.check($pm, got == want, || format!("{}: after {j} items {mname} gives {got:?}, stepping gives {want:?}", $name));
                $cx.check($pm, seen[..] == order[j..], || format!("{}: after {j} items {mname} visited {seen:?}, the items to come were {:?}", $name, &order[j..]));
            }
        }
    }};
}

fn borrowing_map<const N: usize>(sys: &MapSys<Kx, Vx, N>, path: &[u32], cx: &mut Ctx) {
    let pm = C09;
    let mut b = sys.build(path, cx);
    let range = b.bx.range();
    let want_kv: Vec<Obs> = {
        let mut w: Vec<Obs> = b.model.entries().iter().map(|(k, v)| (Some(*k), Some(*v))).collect();
        w.sort();
        w
    };
    let want_k: Vec<Obs> = {
        let mut w: Vec<Obs> = b.model.entries().iter().map(|(k, _)| (Some(*k), None)).collect();
        w.sort();
        w
    };
    let want_v: Vec<Obs> = {
        let mut w: Vec<Obs> = b.model.entries().iter().map(|(_, v)| (None, Some(*v))).collect();
        w.sort();
        w
    };
    let total = want_kv.len();
    let inside = |a: usize, sz: usize| a >= range.0 && a + sz <= range.1;
    {
        let m: &Map<Kx, Vx, N> = &b.bx.c;
        let pkv = |(k, v): (&Kx, &Vx)| -> Obs { (Some(k.desc()), Some(v.desc())) };
        let pk = |k: &Kx| -> Obs { (Some(k.desc()), None) };
        let pv = |v: &Vx| -> Obs { (None, Some(v.desc())) };
        let o1 = walk!(cx, pm, "iter()", m.iter(), pkv, &want_kv);
        let o2 = walk!(cx, pm, "iter() again", m.iter(), pkv, &want_kv);
        cx.check(pm, o1 == o2, || format!("iter(): two traversals without mutation differ: {o1:?} vs {o2:?}"));
        let o3 = walk!(cx, pm, "(&map).into_iter()", m.into_iter(), pkv, &want_kv);
        cx.check(pm, o1 == o3, || "(&map).into_iter() order differs from iter()".to_string());
        counts!(cx, pm, "iter()", m.iter(), total);
        clones!(cx, pm, "iter()", m.iter(), pkv, &o1);
        derived!(cx, pm, "iter()", m.iter(), pkv, &o1);
        searching!(cx, pm, "iter()", m.iter(), |x: &(&Kx, &Vx)| -> Obs { (Some(x.0.desc()), Some(x.1.desc())) }, &o1);
        let k1 = walk!(cx, pm, "keys()", m.keys(), pk, &want_k);
        let k2 = walk!(cx, pm, "keys() again", m.keys(), pk, &want_k);
        cx.check(pm, k1 == k2, || "keys(): two traversals differ".to_string());
        counts!(cx, pm, "keys()", m.keys(), total);
        clones!(cx, pm, "keys()", m.keys(), pk, &k1);
        derived!(cx, pm, "keys()", m.keys(), pk, &k1);
        searching!(cx, pm, "keys()", m.keys(), |x: &&Kx| -> Obs { (Some(x.desc()), None) }, &k1);
        let v1 = walk!(cx, pm, "values()", m.values(), pv, &want_v);
        let v2 = walk!(cx, pm, "values() again", m.values(), pv, &want_v);
        cx.check(pm, v1 == v2, || "values(): two traversals differ".to_string());
        counts!(cx, pm, "values()", m.values(), total);
        clones!(cx, pm, "values()", m.values(), pv, &v1);
        derived!(cx, pm, "values()", m.values(), pv, &v1);
        searching!(cx, pm, "values()", m.values(), |x: &&Vx| -> Obs { (None, Some(x.desc())) }, &v1);
        // keys()/values() are projections of iter(): same order
        let proj_ok = o1.iter().map(|o| (o.0, None)).collect::<Vec<Obs>>() == k1 && o1.iter().map(|o| (None, o.1)).collect::<Vec<Obs>>() == v1;
        cx.check(pm, proj_ok, || "keys()/values() do not follow the order of iter()".to_string());
        // references point inside the container value
        for (k, v) in m.iter() {
            cx.check(C06, inside(k as *const Kx as usize, std::mem::size_of::<Kx>()) && inside(v as *const Vx as usize, std::mem::size_of::<Vx>()), || {
                "iter() yields a reference outside the container value".to_string()
            });
        }
        // default iterators are empty
        let d: micromap::Iter<'_, Kx, Vx> = Default::default();
        cx.check(pm, d.len() == 0 && d.clone().next().is_none(), || "Iter::default() is not empty".to_string());
        let d: micromap::Keys<'_, Kx, Vx> = Default::default();
        cx.check(pm, d.len() == 0, || "Keys::default() is not empty".to_string());
        let d: micromap::Values<'_, Kx, Vx> = Default::default();
        cx.check(pm, d.len() == 0, || "Values::default() is not empty".to_string());
    }
    flush_ledger(cx, pm | C02, "borrowing iteration");
    // mutable iterators
    {
        let m: &mut Map<Kx, Vx, N> = &mut b.bx.c;
        let pkv = |(k, v): (&Kx, &mut Vx)| -> Obs { (Some(k.desc()), Some(v.desc())) };
        let pv = |v: &mut Vx| -> Obs { (None, Some(v.desc())) };
        let o1 = walk!(cx, pm, "iter_mut()", m.iter_mut(), pkv, &want_kv);
        let o2 = walk!(cx, pm, "(&mut map).into_iter()", (&mut *m).into_iter(), pkv, &want_kv);
        cx.check(pm, o1 == o2, || "iter_mut(): two traversals differ".to_string());
        counts!(cx, pm, "iter_mut()", m.iter_mut(), total);
        derived!(cx, pm, "iter_mut()", m.iter_mut(), pkv, &o1);
        searching!(cx, pm, "iter_mut()", m.iter_mut(), |x: &(&Kx, &mut Vx)| -> Obs { (Some(x.0.desc()), Some(x.1.desc())) }, &o1);
        let v1 = walk!(cx, pm, "values_mut()", m.values_mut(), pv, &want_v);
        counts!(cx, pm, "values_mut()", m.values_mut(), total);
        derived!(cx, pm, "values_mut()", m.values_mut(), pv, &v1);
        searching!(cx, pm, "values_mut()", m.values_mut(), |x: &&mut Vx| -> Obs { (None, Some(x.desc())) }, &v1);
        cx.check(pm, o1.iter().map(|o| (None, o.1)).collect::<Vec<Obs>>() == v1, || "values_mut() does not follow the order of iter_mut()".to_string());
        let d: micromap::IterMut<'_, Kx, Vx> = Default::default();
        cx.check(pm, d.len() == 0, || "IterMut::default() is not empty".to_string());
        let d: micromap::ValuesMut<'_, Kx, Vx> = Default::default();
        cx.check(pm, d.len() == 0, || "ValuesMut::default() is not empty".to_string());
        let mut d: micromap::IntoIter<Kx, Vx, N> = Default::default();
        cx.check(C10, d.len() == 0 && d.next().is_none(), || "IntoIter::default() is not empty".to_string());
        let mut d: micromap::IntoKeys<Kx, Vx, N> = Default::default();
        cx.check(C10, d.len() == 0 && d.next().is_none(), || "IntoKeys::default() is not empty".to_string());
        let mut d: micromap::IntoValues<Kx, Vx, N> = Default::default();
        cx.check(C10, d.len() == 0 && d.next().is_none(), || "IntoValues::default() is not empty".to_string());
    }
    // writes through iter_mut: a distinct value per entry (by visiting position), then lookups
    for via_values in [false, true] {
        let m: &mut Map<Kx, Vx, N> = &mut b.bx.c;
        let mut written: Vec<(u8, u32, u8)> = Vec::new(); // (key code or 0xFF, value id, new value)
        if via_values {
            for (i, v) in m.values_mut().enumerate() {
                let nv = ((i + 1) % 8) as u8;
                let id = v.desc().id;
                v.set(nv);
                written.push((0xFF, id, nv));
            }
        } else {
            for (i, (k, v)) in m.iter_mut().enumerate() {
                let nv = ((i + 3) % 8) as u8;
                let id = v.desc().id;
                v.set(nv);
                written.push((k.desc().k, id, nv));
            }
        }
        cx.check(pm, written.len() == total, || format!("mutable iteration visited {} of {total} entries", written.len()));
        // every value object now carries exactly what was written to it
        for (k, vid, nv) in &written {
            let found = m.iter().find(|(_, v)| v.desc().id == *vid).map(|(kk, v)| (kk.desc().k, v.desc().v));
            cx.check(pm, found.map(|f| f.1) == Some(*nv), || format!("value #{vid} was set to {nv} through the iterator but iteration shows {found:?}"));
            if *k != 0xFF {
                let g = m.get::<Kx>(&b.probes[*k as usize]).map(|v| (v.desc().id, v.desc().v));
                cx.check(pm, g == Some((*vid, *nv)), || format!("after writing {nv} through iter_mut, get(k{k}) gives {g:?}"));
            }
        }
        for (kd, _) in b.model.entries() {
            let g = m.get::<Kx>(&b.probes[kd.k as usize]).map(|v| v.desc().v);
            let w = written.iter().find(|w| m.get::<Kx>(&b.probes[kd.k as usize]).map(|v| v.desc().id) == Some(w.1)).map(|w| w.2);
            cx.check(pm, g.is_some() && g == w, || format!("get(k{}) gives {g:?} but {w:?} was written to that value", kd.k));
        }
    }
    flush_ledger(cx, pm | C02, "mutable iteration");
    cx.check(C02 | C09, b.bx.intact(), || "canary overwritten".to_string());
    // keep the model in sync with the in-place writes is not needed: tear down by ledger only
    let mc::mapsys::Built { bx, probes, .. } = b;
    drop(bx);
    drop(probes);
    flush_ledger(cx, C02, "dropping the container");
    check_live(cx, C02, Vec::new(), &[], "after dropping the container");
}

fn borrowing_set<const N: usize>(sys: &SetSys<Kx, N>, path: &[u32], cx: &mut Ctx) {
    let pm = C09;
    let b = sys.build(path, cx);
    let want: Vec<Obs> = {
        let mut w: Vec<Obs> = b.model.elems().iter().map(|k| (Some(*k), None)).collect();
        w.sort();
        w
    };
    let total = want.len();
    {
        let s: &Set<Kx, N> = &b.bx.c;
        let pk = |k: &Kx| -> Obs { (Some(k.desc()), None) };
        let o1 = walk!(cx, pm, "Set::iter()", s.iter(), pk, &want);
        let o2 = walk!(cx, pm, "(&set).into_iter()", s.into_iter(), pk, &want);
        cx.check(pm, o1 == o2, || "Set::iter(): two traversals differ".to_string());
        counts!(cx, pm, "Set::iter()", s.iter(), total);
        clones!(cx, pm, "Set::iter()", s.iter(), pk, &o1);
        derived!(cx, pm, "Set::iter()", s.iter(), pk, &o1);
        searching!(cx, pm, "Set::iter()", s.iter(), |x: &&Kx| -> Obs { (Some(x.desc()), None) }, &o1);
    }
    flush_ledger(cx, pm | C02, "Set iteration");
    sys.teardown(b, cx, C02);
}

#[derive(Clone, Copy, Debug, PartialEq, Eq)]
enum Kind {
    IntoIter,
    IntoKeys,
    IntoValues,
    Drain,
    SetIntoIter,
    SetDrain,
}

/// Step a consuming iterator `take` times (+extra after the end), judging lengths.
macro_rules! consume {
    ($cx:expr, $pm:expr, $name:expr, $it:expr, $total:expr, $take:expr, $sink:expr) => {{
        let mut n = 0usize;
        let mut ended = false;
        for _ in 0..$take {
            let rem = $total - n;
            let l = ExactSizeIterator::len(&$it);
            let sh = $it.size_hint();
            $cx.check($pm, l == rem && sh == (rem, Some(rem)), || {
                format!("{}: after {n} items len() is {l} and size_hint {sh:?}, but {rem} items are still to come", $name)
            });
            match $it.next() {
                Some(x) => {
                    n += 1;
                    ($sink)(x);
                    if n > $total {
                        $cx.violate($pm | C02, format!("{}: yields more than the {} stored entries", $name, $total));
                        break;
                    }
                }
                None => {
                    ended = true;
                    $cx.check($pm, n == $total, || format!("{}: ended after {n} of {} items", $name, $total));
                }
            }
        }
        let rem = $total - n.min($total);
        let l = ExactSizeIterator::len(&$it);
        $cx.check($pm, l == rem, || format!("{}: after {n} items len() is {l}, expected {rem}", $name));
        let _ = ended;
        n
    }};
}

fn consuming<const N: usize>(msys: &MapSys<Kx, Vx, N>, path: &[u32], cx: &mut Ctx) {
    let len = {
        let mut q = Ctx::new(0);
        q.quiet = true;
        msys.build(path, &mut q).model.m.len()
    };
    for kind in [Kind::IntoIter, Kind::IntoKeys, Kind::IntoValues, Kind::Drain] {
        for take in 0..=(len + 2) {
            for forget in [false, true] {
                for use_count in [false, true] {
                    if use_count && (forget || kind == Kind::Drain && take > len) {
                        continue;
                    }
                    consume_map_once::<N>(msys, path, kind, take, forget, use_count, cx);
                }
            }
        }
    }
}

fn consume_map_once<const N: usize>(msys: &MapSys<Kx, Vx, N>, path: &[u32], kind: Kind, take: usize, forget: bool, use_count: bool, cx: &mut Ctx) {
    let pm = C10;
    cx.here.op = format!("{kind:?} take={take} then {}", if use_count { "count()" } else if forget { "mem::forget" } else { "drop" });
    cx.evaluations += 1;
    let b = msys.build(path, cx);
    let entries = b.model.entries();
    let total = entries.len();
    if total > 0 {
        cx.nontrivial += 1;
    }
    let stored_ids = b.model.stored_ids();
    let name = format!("{kind:?}");
    let mut held_k: Vec<Kx> = Vec::new();
    let mut held_v: Vec<Vx> = Vec::new();
    let mut yielded: Vec<Obs> = Vec::new();
    let mc::mapsys::Built { mut bx, probes, .. } = b;
    pl::take_violations();
    match kind {
        Kind::Drain => {
            let mut d = bx.c.drain();
            let n = consume!(cx, pm, name, d, total, take, |(k, v): (Kx, Vx)| {
                yielded.push((Some(k.desc()), Some(v.desc())));
                held_k.push(k);
                held_v.push(v);
            });
            if use_count {
                let c = d.count();
                cx.check(pm, c == total - n, || format!("{name}: count() after {n} items is {c}"));
            } else if forget {
                std::mem::forget(d);
            } else {
                drop(d);
            }
            // drain always empties, whatever was consumed
            let m = &mut bx.c;
            cx.check(pm | C01, m.is_empty() && m.iter().next().is_none(), || {
                format!("after drain() (took {n}, {}) the map still has len {}", if forget { "forgotten" } else { "dropped" }, m.len())
            });
        }
        Kind::IntoIter | Kind::IntoKeys | Kind::IntoValues => {
            let m = std::mem::take(&mut bx.c);
            match kind {
                Kind::IntoIter => {
                    let mut it = m.into_iter();
                    let n = consume!(cx, pm, name, it, total, take, |(k, v): (Kx, Vx)| {
                        yielded.push((Some(k.desc()), Some(v.desc())));
                        held_k.push(k);
                        held_v.push(v);
                    });
                    if use_count {
                        let c = it.count();
                        cx.check(pm, c == total - n, || format!("{name}: count() after {n} items is {c}"));
                    } else if forget {
                        std::mem::forget(it);
                    } else {
                        drop(it);
                    }
                }
                Kind::IntoKeys => {
                    let mut it = m.into_keys();
                    let n = consume!(cx, pm, name, it, total, take, |k: Kx| {
                        yielded.push((Some(k.desc()), None));
                        held_k.push(k);
                    });
                    if use_count {
                        let c = it.count();
                        cx.check(pm, c == total - n, || format!("{name}: count() after {n} items is {c}"));
                    } else if forget {
                        std::mem::forget(it);
                    } else {
                        drop(it);
                    }
                }
                _ => {
                    let mut it = m.into_values();
                    let n = consume!(cx, pm, name, it, total, take, |v: Vx| {
                        yielded.push((None, Some(v.desc())));
                        held_v.push(v);
                    });
                    if use_count {
                        let c = it.count();
                        cx.check(pm, c == total - n, || format!("{name}: count() after {n} items is {c}"));
                    } else if forget {
                        std::mem::forget(it);
                    } else {
                        drop(it);
                    }
                }
            }
        }
        _ => unreachable!(),
    }
    // items yielded are distinct stored entries
    let mut sorted = yielded.clone();
    sorted.sort();
    sorted.dedup();
    let all_stored = yielded.iter().all(|o| entries.iter().any(|(k, v)| o.0.map_or(true, |x| x == *k) && o.1.map_or(true, |x| x == *v)));
    cx.check(pm | C02, sorted.len() == yielded.len() && all_stored, || format!("{name}: yielded {yielded:?}, stored were {entries:?}"));
    cx.check(pm | C02, yielded.len() == take.min(total), || format!("{name}: yielded {} items for take={take} of {total}", yielded.len()));
    flush_ledger(cx, C02 | pm, "during consumption");
    // ownership: what we hold is alive; everything else of the container is destroyed (or, when
    // forgotten, possibly leaked) - and never destroyed twice
    let held_ids: Vec<u32> = held_k.iter().map(|k| k.id()).chain(held_v.iter().map(|v| v.id())).collect();
    let mut expect: Vec<u32> = held_ids.clone();
    expect.extend(probes.iter().map(|p| p.id()));
    let leak_ok: Vec<u32> = if forget { stored_ids.clone() } else { Vec::new() };
    check_live(cx, C02 | pm, expect, &leak_ok, "after the iterator is gone");
    drop(held_k);
    drop(held_v);
    flush_ledger(cx, C02 | pm, "dropping the yielded items");
    // the container (drained, or the default left by take()) must be fully reusable
    {
        let m = &mut bx.c;
        let nk = msys.nk.min(N as u8 + 1);
        for k in 0..(N as u8).min(nk) {
            let r = m.insert(Kx::new(k, 0), Vx::new(1));
            cx.check(pm, r.is_none(), || format!("refilling after {name}: insert(k{k}) returned a value"));
        }
        cx.check(pm, m.len() == N.min(nk as usize), || format!("refilling after {name}: len() is {}", m.len()));
        for k in 0..(N as u8).min(nk) {
            let g = m.get::<Kx>(&probes[k as usize]).map(|v| v.desc().v);
            cx.check(pm, g == Some(1), || format!("refilling after {name}: get(k{k}) is {g:?}"));
        }
        mc::mapsys::invariants(m, cx, pm);
    }
    cx.check(C02 | pm, bx.intact(), || "canary overwritten".to_string());
    drop(bx);
    drop(probes);
    flush_ledger(cx, C02 | pm, "dropping the refilled container");
    check_live(cx, C02 | pm, Vec::new(), &leak_ok, "at the end");
}

/// Every provided-method mode of `drive_modes!`: 0 nth(n)+next, 1 last, 2 fold, 3 find, 4 position,
/// 5 any, 6 all, 7 find_map (3-7 stop at the n-th callback call; n == remaining: no match),
/// 8 for_each, 9 max_by_key, 10 min_by_key, 11 reduce, 12 collect into a Vec; and with a callback that
/// PANICS at its n-th call: 13 fold, 14 for_each, 15 find (the iterator is then used further).
const MODES: u8 = 16;
const MODE_NAMES: [&str; MODES as usize] = ["nth(n)", "last()", "fold", "find", "position", "any", "all", "find_map", "for_each", "max_by_key", "min_by_key", "reduce",
    "collect::<Vec>", "fold with a panicking closure", "for_each with a panicking closure", "find with a panicking predicate"];

fn mode_applies(mode: u8, n: usize, rem: usize) -> bool {
    match mode {
        0 => true,
        1 | 2 | 8..=12 => n == 0,
        3..=7 => n <= rem,
        _ => n < rem,
    }
}

/// Drive one consuming iterator `$it` (already built) through `j` steps and then one provided method;
/// judge against `$order`, the order stepping with next() gives. `$projr` projects `&Item`.
macro_rules! drive_modes {
    ($cx:expr, $pm:expr, $kind:expr, $it:expr, $projr:expr, $order:expr, $j:expr, $n:expr, $mode:expr) => {{
        let (cx, pm, kind, order, j, n, mode) = ($cx, $pm, $kind, $order, $j, $n, $mode);
        let total = order.len();
        let mut it = $it;
        for _ in 0..j {
            it.next();
        }
        match mode {
            0 => {
                let r = it.nth(n).map(|x| ($projr)(&x));
                let want = order.get(j + n).copied();
                cx.check(pm, r == want, || format!("{kind:?}: after {j} items nth({n}) gives {r:?}, stepping gives {want:?}"));
                let rem = total.saturating_sub(j + n + 1);
                let l = ExactSizeIterator::len(&it);
                let sh = it.size_hint();
                cx.check(pm, l == rem && sh == (rem, Some(rem)), || format!("{kind:?}: after {j} items and nth({n}) len() is {l} / size_hint {sh:?}, expected {rem}"));
                let nx = it.next().map(|x| ($projr)(&x));
                let want = order.get(j + n + 1).copied();
                cx.check(pm, nx == want, || format!("{kind:?}: after {j} items and nth({n}) next() gives {nx:?}, expected {want:?}"));
                if r.is_none() {
                    let again = it.next().map(|x| ($projr)(&x));
                    cx.check(pm, again.is_none(), || format!("{kind:?}: yields {again:?} after nth({n}) had reported the end"));
                }
            }
            1 => {
                let l = it.last().map(|x| ($projr)(&x));
                let want = if j < total { order.last().copied() } else { None };
                cx.check(pm, l == want, || format!("{kind:?}: after {j} items last() gives {l:?}, expected {want:?}"));
            }
            2 => {
                let folded = it.fold(Vec::new(), |mut acc, x| {
                    acc.push(($projr)(&x));
                    acc
                });
                cx.check(pm, folded[..] == order[j..], || format!("{kind:?}: after {j} items fold visits {folded:?}, stepping gives {:?}", &order[j..]));
            }
            3..=7 => {
                let mut seen = Vec::new();
                let mut calls = 0usize;
                let t = j + n;
                let (got, want) = match mode {
                    3 => {
                        let r = it.find(|x| {
                            seen.push(($projr)(x));
                            calls += 1;
                            calls - 1 == n
                        });
                        (Res::Item(r.map(|x| ($projr)(&x))), Res::Item(order.get(t).copied()))
                    }
                    4 => {
                        let r = it.position(|x| {
                            seen.push(($projr)(&x));
                            calls += 1;
                            calls - 1 == n
                        });
                        (Res::Pos(r), Res::Pos(if t < total { Some(n) } else { None }))
                    }
                    5 => {
                        let r = it.any(|x| {
                            seen.push(($projr)(&x));
                            calls += 1;
                            calls - 1 == n
                        });
                        (Res::Bool(r), Res::Bool(t < total))
                    }
                    6 => {
                        let r = it.all(|x| {
                            seen.push(($projr)(&x));
                            calls += 1;
                            calls - 1 != n
                        });
                        (Res::Bool(r), Res::Bool(t >= total))
                    }
                    _ => {
                        let r = it.find_map(|x| {
                            seen.push(($projr)(&x));
                            calls += 1;
                            if calls - 1 == n { Some(($projr)(&x)) } else { None }
                        });
                        (Res::Item(r), Res::Item(order.get(t).copied()))
                    }
                };
                let mname = MODE_NAMES[mode as usize];
                let upto = (t + 1).min(total);
                cx.check(pm, got == want, || format!("{kind:?}: after {j} items {mname}(stop at call {n}) gives {got:?}, stepping gives {want:?}"));
                cx.check(pm, seen[..] == order[j..upto], || format!("{kind:?}: after {j} items {mname} showed its callback {seen:?}, the items to come were {:?}", &order[j..upto]));
                let l = ExactSizeIterator::len(&it);
                let sh = it.size_hint();
                let rest: Vec<_> = it.map(|x| ($projr)(&x)).collect();
                cx.check(pm, rest[..] == order[upto..] && l == total - upto && sh == (l, Some(l)), || {
                    format!("{kind:?}: after {j} items and {mname} stopping at item {t}, len() is {l}, size_hint {sh:?} and the iterator continues with {rest:?}; expected {:?}", &order[upto..])
                });
            }
            8..=12 => {
                let mut seen = Vec::new();
                let mut calls = 0usize;
                let (got, want) = match mode {
                    8 => {
                        it.for_each(|x| seen.push(($projr)(&x)));
                        (None, None)
                    }
                    9 => {
                        let r = it.max_by_key(|x| {
                            seen.push(($projr)(x));
                            calls += 1;
                            calls
                        });
                        (r.map(|x| ($projr)(&x)), order[j..].last().copied())
                    }
                    10 => {
                        let r = it.min_by_key(|x| {
                            seen.push(($projr)(x));
                            calls += 1;
                            calls
                        });
                        (r.map(|x| ($projr)(&x)), order[j..].first().copied())
                    }
                    11 => {
                        let r = it.reduce(|a, b| {
                            seen.push(($projr)(&a));
                            b
                        });
                        if let Some(x) = &r {
                            seen.push(($projr)(x));
                        }
                        (r.map(|x| ($projr)(&x)), order[j..].last().copied())
                    }
                    _ => {
                        let v: Vec<_> = it.collect();
                        seen.extend(v.iter().map(|x| ($projr)(x)));
                        (None, None)
                    }
                };
                let mname = MODE_NAMES[mode as usize];
                cx.check(pm, got == want, || format!("{kind:?}: after {j} items {mname} gives {got:?}, stepping gives {want:?}"));
                cx.check(pm, seen[..] == order[j..], || format!("{kind:?}: after {j} items {mname} visited {seen:?}, the items to come were {:?}", &order[j..]));
            }
            _ => {
                // a callback that panics at its n-th call: nothing may be destroyed twice or used
                // after its destruction (judged by the ledger below); what a surviving iterator
                // yields afterwards must still be not-yet-yielded entries, each at most once
                let mut seen = Vec::new();
                let mut calls = 0usize;
                let pmx = C02 | C04;
                match mode {
                    13 => {
                        let r = catch_unwind(AssertUnwindSafe(|| {
                            it.fold(0usize, |acc, x| {
                                seen.push(($projr)(&x));
                                calls += 1;
                                if calls - 1 == n {
                                    panic!("fold closure");
                                }
                                acc + 1
                            })
                        }));
                        cx.check(pmx, r.is_err(), || format!("{kind:?}: fold swallowed the panic of its closure"));
                    }
                    14 => {
                        let r = catch_unwind(AssertUnwindSafe(|| {
                            it.for_each(|x| {
                                seen.push(($projr)(&x));
                                calls += 1;
                                if calls - 1 == n {
                                    panic!("for_each closure");
                                }
                            })
                        }));
                        cx.check(pmx, r.is_err(), || format!("{kind:?}: for_each swallowed the panic of its closure"));
                    }
                    _ => {
                        let r = catch_unwind(AssertUnwindSafe(|| {
                            it.find(|x| {
                                seen.push(($projr)(x));
                                calls += 1;
                                if calls - 1 == n {
                                    panic!("find predicate");
                                }
                                false
                            })
                            .is_some()
                        }));
                        cx.check(pmx, r.is_err(), || format!("{kind:?}: find swallowed the panic of its predicate"));
                        let l = ExactSizeIterator::len(&it);
                        let rest: Vec<_> = it.map(|x| ($projr)(&x)).collect();
                        // (projections of different entries may coincide: judge as multisets)
                        let mut pool = order[j..].to_vec();
                        let mut fresh = true;
                        for x in seen.iter().chain(rest.iter()) {
                            match pool.iter().position(|p| p == x) {
                                Some(i) => {
                                    pool.swap_remove(i);
                                }
                                None => fresh = false,
                            }
                        }
                        cx.check(pmx, fresh && l == rest.len(), || {
                            format!("{kind:?}: after {j} items and a find whose predicate panicked at call {n} (having seen {seen:?}) len() is {l} and the iterator yields {rest:?}")
                        });
                    }
                }
                cx.check(pmx, seen[..] == order[j..(j + n + 1).min(total)], || {
                    format!("{kind:?}: after {j} items the callback was shown {seen:?} before panicking at call {n}; the items to come were {:?}", &order[j..])
                });
            }
        }
    }};
}

/// Provided iterator methods on the consuming iterators and drains, against the order observed by
/// stepping a freshly rebuilt container with next() (rebuilds are deterministic).
fn derived_consuming<const N: usize>(msys: &MapSys<Kx, Vx, N>, ssys_path: Option<(&SetSys<Kx, N>, &[u32])>, path: &[u32], cx: &mut Ctx) {
    let pm = C10;
    // map kinds
    for kind in [Kind::IntoIter, Kind::IntoKeys, Kind::IntoValues, Kind::Drain] {
        // reference order by next()
        let mut order: Vec<(u8, u8, u8)> = Vec::new();
        {
            let mut b = msys.build(path, cx);
            match kind {
                Kind::IntoIter => order.extend(std::mem::take(&mut b.bx.c).into_iter().map(|(k, v)| (k.k, k.tag, v.v))),
                Kind::IntoKeys => order.extend(std::mem::take(&mut b.bx.c).into_keys().map(|k| (k.k, k.tag, 0))),
                Kind::IntoValues => order.extend(std::mem::take(&mut b.bx.c).into_values().map(|v| (0, 0, v.v))),
                _ => order.extend(b.bx.c.drain().map(|(k, v)| (k.k, k.tag, v.v))),
            }
        }
        let total = order.len();
        for j in 0..=total {
            for n in 0..=(total - j + 1) {
                for mode in 0..MODES {
                    if !mode_applies(mode, n, total - j) {
                        continue;
                    }
                    cx.here.op = format!("{kind:?}: after {j} items {} (n = {n})", MODE_NAMES[mode as usize]);
                    cx.evaluations += 1;
                    let mut b = msys.build(path, cx);
                    let stored_ids = b.model.stored_ids();
                    pl::take_violations();
                    match kind {
                        Kind::IntoIter => drive_modes!(&mut *cx, pm, kind, std::mem::take(&mut b.bx.c).into_iter(), |x: &(Kx, Vx)| (x.0.k, x.0.tag, x.1.v), &order, j, n, mode),
                        Kind::IntoKeys => drive_modes!(&mut *cx, pm, kind, std::mem::take(&mut b.bx.c).into_keys(), |x: &Kx| (x.k, x.tag, 0u8), &order, j, n, mode),
                        Kind::IntoValues => drive_modes!(&mut *cx, pm, kind, std::mem::take(&mut b.bx.c).into_values(), |x: &Vx| (0u8, 0u8, x.v), &order, j, n, mode),
                        _ => {
                            drive_modes!(&mut *cx, pm, kind, b.bx.c.drain(), |x: &(Kx, Vx)| (x.0.k, x.0.tag, x.1.v), &order, j, n, mode);
                            cx.check(pm, b.bx.c.is_empty() && b.bx.c.iter().next().is_none(), || "map not empty after the drain was dropped".to_string());
                        }
                    }
                    let pmx = if mode >= 13 { C02 | C04 } else { C02 | pm };
                    flush_ledger(cx, pmx, "provided iterator methods");
                    mc::mapsys::invariants(&b.bx.c, cx, pmx);
                    let mc::mapsys::Built { bx, probes, .. } = b;
                    drop(bx);
                    drop(probes);
                    flush_ledger(cx, pmx, "dropping after provided iterator methods");
                    // unwinding out of a callback may leak (C04 allows that), never destroy twice
                    let leak_ok: Vec<u32> = if mode >= 13 { stored_ids } else { Vec::new() };
                    check_live(cx, pmx, Vec::new(), &leak_ok, "after a provided method of a consuming iterator");
                }
            }
        }
    }
    if let Some((ssys, spath)) = ssys_path {
        for kind in [Kind::SetIntoIter, Kind::SetDrain] {
            let mut order: Vec<(u8, u8)> = Vec::new();
            {
                let mut b = ssys.build(spath, cx);
                if kind == Kind::SetDrain {
                    order.extend(b.bx.c.drain().map(|k| (k.k, k.tag)));
                } else {
                    order.extend(std::mem::take(&mut b.bx.c).into_iter().map(|k| (k.k, k.tag)));
                }
            }
            let total = order.len();
            for j in 0..=total {
                for n in 0..=(total - j + 1) {
                    for mode in 0..MODES {
                        if !mode_applies(mode, n, total - j) {
                            continue;
                        }
                        cx.here.op = format!("{kind:?}: after {j} items {} (n = {n})", MODE_NAMES[mode as usize]);
                        cx.evaluations += 1;
                        let mut b = ssys.build(spath, cx);
                        pl::take_violations();
                        if kind == Kind::SetDrain {
                            drive_modes!(&mut *cx, pm, kind, b.bx.c.drain(), |x: &Kx| (x.k, x.tag), &order, j, n, mode);
                            cx.check(pm, b.bx.c.is_empty() && b.bx.c.iter().next().is_none(), || "set not empty after the drain was dropped".to_string());
                        } else {
                            drive_modes!(&mut *cx, pm, kind, std::mem::take(&mut b.bx.c).into_iter(), |x: &Kx| (x.k, x.tag), &order, j, n, mode);
                        }
                        let pmx = if mode >= 13 { C02 | C04 } else { C02 | pm };
                        flush_ledger(cx, pmx, "provided iterator methods (set)");
                        if mode >= 13 {
                            // leaks are allowed after unwinding: tear down by the ledger only
                            let stored: Vec<u32> = b.model.stored_ids();
                            let mc::setsys::SBuilt { bx, probes, .. } = b;
                            drop(bx);
                            drop(probes);
                            flush_ledger(cx, pmx, "dropping after provided iterator methods (set)");
                            check_live(cx, pmx, Vec::new(), &stored, "after a panicking callback of a consuming set iterator");
                        } else {
                            ssys.teardown(b, cx, C02 | pm);
                        }
                    }
                }
            }
        }
    }
}

fn consuming_set<const N: usize>(ssys: &SetSys<Kx, N>, path: &[u32], cx: &mut Ctx) {
    let pm = C10;
    let len = {
        let mut q = Ctx::new(0);
        q.quiet = true;
        ssys.build(path, &mut q).model.s.len()
    };
    for kind in [Kind::SetIntoIter, Kind::SetDrain] {
        for take in 0..=(len + 2) {
            for forget in [false, true] {
                cx.here.op = format!("{kind:?} take={take} then {}", if forget { "mem::forget" } else { "drop" });
                cx.evaluations += 1;
                let b = ssys.build(path, cx);
                let elems = b.model.elems();
                let total = elems.len();
                if total > 0 {
                    cx.nontrivial += 1;
                }
                let stored_ids = b.model.stored_ids();
                let name = format!("{kind:?}");
                let mut held: Vec<Kx> = Vec::new();
                let mut yielded: Vec<KD> = Vec::new();
                let mc::setsys::SBuilt { mut bx, probes, .. } = b;
                pl::take_violations();
                if kind == Kind::SetDrain {
                    let mut d = bx.c.drain();
                    let n = consume!(cx, pm, name, d, total, take, |k: Kx| {
                        yielded.push(k.desc());
                        held.push(k);
                    });
                    if forget {
                        std::mem::forget(d);
                    } else {
                        drop(d);
                    }
                    cx.check(pm | C07, bx.c.is_empty() && bx.c.iter().next().is_none(), || format!("after Set::drain() (took {n}) the set still has len {}", bx.c.len()));
                } else {
                    let s = std::mem::take(&mut bx.c);
                    let mut it = s.into_iter();
                    consume!(cx, pm, name, it, total, take, |k: Kx| {
                        yielded.push(k.desc());
                        held.push(k);
                    });
                    if forget {
                        std::mem::forget(it);
                    } else {
                        drop(it);
                    }
                }
                let mut sorted = yielded.clone();
                sorted.sort();
                sorted.dedup();
                cx.check(pm | C02, sorted.len() == yielded.len() && yielded.iter().all(|k| elems.contains(k)) && yielded.len() == take.min(total), || {
                    format!("{name}: yielded {yielded:?} for take={take}, stored were {elems:?}")
                });
                flush_ledger(cx, C02 | pm, "during consumption");
                let mut expect: Vec<u32> = held.iter().map(|k| k.id()).collect();
                expect.extend(probes.iter().map(|p| p.id()));
                let leak_ok: Vec<u32> = if forget { stored_ids.clone() } else { Vec::new() };
                check_live(cx, C02 | pm, expect, &leak_ok, "after the iterator is gone");
                drop(held);
                for k in 0..(N as u8).min(ssys.nk) {
                    let r = bx.c.insert(Kx::new(k, 0));
                    cx.check(pm, r, || format!("refilling after {name}: insert(k{k}) returned false"));
                }
                cx.check(pm, bx.c.len() == N.min(ssys.nk as usize), || format!("refilling after {name}: len() is {}", bx.c.len()));
                mc::setsys::invariants(&bx.c, cx, pm);
                drop(bx);
                drop(probes);
                flush_ledger(cx, C02 | pm, "dropping the refilled set");
                check_live(cx, C02 | pm, Vec::new(), &leak_ok, "at the end");
            }
        }
    }
}

// ------------------------------------------------------------------------------------------
// Element shapes: the same iterator properties on maps/sets of other key/value types (zero-sized
// key and/or value, plain Copy, heap-owning, large, no-drop-glue). Generic over the payload
// traits; entries are compared by their codes (keys are unique, so a key code identifies an entry).
// ------------------------------------------------------------------------------------------
type Code = (u8, u8, u8);

macro_rules! gwalk {
    ($cx:expr, $pm:expr, $name:expr, $mk:expr, $proj:expr, $total:expr) => {{
        let total: usize = $total;
        let mut it = $mk;
        let mut got: Vec<Code> = Vec::new();
        loop {
            let rem = total.saturating_sub(got.len());
            let l = ExactSizeIterator::len(&it);
            let sh = it.size_hint();
            $cx.check($pm, l == rem && sh == (rem, Some(rem)), || {
                format!("{}: after {} items len() is {l} and size_hint {sh:?}, but {rem} items are still to come", $name, got.len())
            });
            match it.next() {
                Some(x) => {
                    got.push(($proj)(x));
                    if got.len() > total + 2 {
                        break;
                    }
                }
                None => break,
            }
        }
        for _ in 0..3 {
            let l = ExactSizeIterator::len(&it);
            let sh = it.size_hint();
            $cx.check($pm, l == 0 && sh == (0, Some(0)), || format!("{}: exhausted, yet len() is {l} and size_hint {sh:?}", $name));
            let more = it.next().is_some();
            $cx.check($pm, !more, || format!("{}: yields an item after having returned None", $name));
        }
        let l = ExactSizeIterator::len(&it);
        $cx.check($pm, l == 0 && it.size_hint() == (0, Some(0)), || format!("{}: after repeated next() past the end len() is {l}", $name));
        for j in 0..=total {
            let mut it = $mk;
            for _ in 0..j {
                it.next();
            }
            let c = it.count();
            $cx.check($pm, c == total - j, || format!("{}: count() after {j} of {total} items is {c}", $name));
        }
        got
    }};
}

fn sorted(mut v: Vec<Code>) -> Vec<Code> {
    v.sort();
    v
}

fn shape_map_state<K: KeyT, V: ValT, const N: usize>(sys: &MapSys<K, V, N>, path: &[u32], cx: &mut Ctx) {
    let pm = C09;
    let mut b = sys.build(path, cx);
    let ents = b.model.entries();
    let total = ents.len();
    let want_kv = sorted(ents.iter().map(|(k, v)| (k.k, k.tag, v.v)).collect());
    let want_k = sorted(ents.iter().map(|(k, _)| (k.k, k.tag, 0xFF)).collect());
    let want_v = sorted(ents.iter().map(|(_, v)| (0xFF, 0xFF, v.v)).collect());
    cx.here.op = format!("borrowing iterators on Map<{},{},{N}>", K::NAME, V::NAME);
    {
        let m: &Map<K, V, N> = &b.bx.c;
        let pkv = |(k, v): (&K, &V)| -> Code { (k.kd().k, k.kd().tag, v.vd().v) };
        let pk = |k: &K| -> Code { (k.kd().k, k.kd().tag, 0xFF) };
        let pv = |v: &V| -> Code { (0xFF, 0xFF, v.vd().v) };
        let o1 = gwalk!(cx, pm, "iter()", m.iter(), pkv, total);
        cx.check(pm, sorted(o1.clone()) == want_kv, || format!("iter() yields {o1:?} but the stored entries are {want_kv:?}"));
        let o2 = gwalk!(cx, pm, "(&map).into_iter()", m.into_iter(), pkv, total);
        cx.check(pm, o1 == o2, || "two traversals without mutation differ".to_string());
        let k1 = gwalk!(cx, pm, "keys()", m.keys(), pk, total);
        cx.check(pm, sorted(k1.clone()) == want_k, || format!("keys() yields {k1:?} but the stored keys are {want_k:?}"));
        let v1 = gwalk!(cx, pm, "values()", m.values(), pv, total);
        cx.check(pm, sorted(v1.clone()) == want_v, || format!("values() yields {v1:?} but the stored values are {want_v:?}"));
        let c: Vec<Code> = m.iter().clone().map(pkv).collect();
        cx.check(pm, c == o1, || "a cloned iter() differs".to_string());
    }
    {
        let m: &mut Map<K, V, N> = &mut b.bx.c;
        let pkv = |(k, v): (&K, &mut V)| -> Code { (k.kd().k, k.kd().tag, v.vd().v) };
        let pv = |v: &mut V| -> Code { (0xFF, 0xFF, v.vd().v) };
        let o1 = gwalk!(cx, pm, "iter_mut()", m.iter_mut(), pkv, total);
        cx.check(pm, sorted(o1.clone()) == want_kv, || format!("iter_mut() yields {o1:?} but the stored entries are {want_kv:?}"));
        let o2 = gwalk!(cx, pm, "(&mut map).into_iter()", (&mut *m).into_iter(), pkv, total);
        cx.check(pm, o1 == o2, || "two mutable traversals differ".to_string());
        let v1 = gwalk!(cx, pm, "values_mut()", m.values_mut(), pv, total);
        cx.check(pm, sorted(v1.clone()) == want_v, || format!("values_mut() yields {v1:?} but the stored values are {want_v:?}"));
    }
    // writes through the mutable iterators are what lookups return
    for via_values in [false, true] {
        let m: &mut Map<K, V, N> = &mut b.bx.c;
        let nvals = V::MAXV.max(1);
        let mut n_visited = 0usize;
        let mut wrote: Vec<(u8, u8)> = Vec::new();
        if via_values {
            let order: Vec<u8> = m.iter().map(|(k, _)| k.kd().k).collect();
            for (i, v) in m.values_mut().enumerate() {
                let c = ((i + 1) as u8) % nvals;
                v.set(c);
                n_visited += 1;
                if let Some(k) = order.get(i) {
                    wrote.push((*k, V::mk(c).vd().v));
                }
            }
        } else {
            for (i, (k, v)) in m.iter_mut().enumerate() {
                let c = ((i + 2) as u8) % nvals;
                v.set(c);
                n_visited += 1;
                wrote.push((k.kd().k, V::mk(c).vd().v));
            }
        }
        cx.check(pm, n_visited == total, || format!("mutable iteration visited {n_visited} of {total} entries"));
        for (k, c) in &wrote {
            let g = K::with_q(*k, |q| m.get(q).map(|v| v.vd().v));
            cx.check(pm, g == Some(*c), || format!("after writing code {c} through the iterator, get(k{k}) gives {g:?}"));
        }
    }
    cx.check(C02 | C09, b.bx.intact(), || "canary overwritten".to_string());
    drop(b);
    // consuming iterators and drain x every cut x {drop, forget}
    let pm = C10;
    for kind in 0..4u8 {
        for take in 0..=total + 1 {
            for forget in [false, true] {
                let name = ["into_iter", "into_keys", "into_values", "drain"][kind as usize];
                cx.here.op = format!("{name} on Map<{},{},{N}> take {take}{}", K::NAME, V::NAME, if forget { " then forget" } else { "" });
                let mut b = sys.build(path, cx);
                let mut got: Vec<Code> = Vec::new();
                let mut held: Vec<(Option<K>, Option<V>)> = Vec::new();
                macro_rules! eat {
                    ($it:expr, $proj:expr, $keep:expr) => {{
                        let mut it = $it;
                        for step in 0..take {
                            let rem = total.saturating_sub(step.min(total));
                            let l = ExactSizeIterator::len(&it);
                            let sh = it.size_hint();
                            cx.check(pm, l == rem && sh == (rem, Some(rem)), || {
                                format!("{name}: after {step} items len() is {l} and size_hint {sh:?}, but {rem} items are still to come")
                            });
                            match it.next() {
                                Some(x) => {
                                    got.push(($proj)(&x));
                                    held.push(($keep)(x));
                                }
                                None => {
                                    cx.check(pm, step >= total, || format!("{name}: ended after {step} of {total} items"));
                                }
                            }
                        }
                        let rem = total.saturating_sub(take.min(total));
                        let l = ExactSizeIterator::len(&it);
                        cx.check(pm, l == rem, || format!("{name}: after {take} items len() is {l}, expected {rem}"));
                        if forget {
                            std::mem::forget(it);
                        } else {
                            drop(it);
                        }
                    }};
                }
                if kind == 3 {
                    eat!(b.bx.c.drain(), |x: &(K, V)| (x.0.kd().k, x.0.kd().tag, x.1.vd().v), |x: (K, V)| (Some(x.0), Some(x.1)));
                    let m = &mut b.bx.c;
                    cx.check(pm, m.is_empty() && m.len() == 0 && m.iter().next().is_none(), || format!("after drain (take {take}, forget {forget}) the map is not empty: len {}", m.len()));
                    // fully reusable
                    let fill = (N as u8).min(sys.nk);
                    for k in 0..fill {
                        m.insert(K::mk(k, 0), V::mk(0));
                    }
                    cx.check(pm, m.len() == fill as usize && m.iter().count() == fill as usize, || format!("after drain the map cannot be refilled: len {} of {fill}", m.len()));
                    for k in 0..fill {
                        let g = K::with_q(k, |q| m.get(q).map(|v| v.vd().v));
                        cx.check(pm, g == Some(V::mk(0).vd().v), || format!("after drain and refill get(k{k}) gives {g:?}"));
                    }
                } else {
                    let owned = std::mem::replace(&mut b.bx.c, Map::new());
                    match kind {
                        0 => eat!(owned.into_iter(), |x: &(K, V)| (x.0.kd().k, x.0.kd().tag, x.1.vd().v), |x: (K, V)| (Some(x.0), Some(x.1))),
                        1 => eat!(owned.into_keys(), |x: &K| (x.kd().k, x.kd().tag, 0xFF), |x: K| (Some(x), None)),
                        _ => eat!(owned.into_values(), |x: &V| (0xFF, 0xFF, x.vd().v), |x: V| (None, Some(x))),
                    }
                }
                let want_all = match kind {
                    1 => &want_k,
                    2 => &want_v,
                    _ => &want_kv,
                };
                // what was yielded is a sub-multiset of the contents, of the right size
                let mut pool = want_all.clone();
                let mut ok = got.len() == take.min(total);
                for g in &got {
                    match pool.iter().position(|p| p == g) {
                        Some(i) => {
                            pool.remove(i);
                        }
                        None => ok = false,
                    }
                }
                cx.check(pm | C02, ok, || format!("{name} (take {take}) yielded {got:?} but the map held {want_all:?}"));
                cx.check(C02 | pm, b.bx.intact(), || "canary overwritten".to_string());
                drop(held);
                drop(b);
                cx.evaluations += 1;
            }
        }
    }
    if K::LEDGER || V::LEDGER || V::HAS_ID {
        flush_ledger(cx, C02 | C09 | C10, "iterating an element shape");
    }
}

fn shape_set_state<K: KeyT, const N: usize>(sys: &SetSys<K, N>, path: &[u32], cx: &mut Ctx) {
    let pm = C09;
    let b = sys.build(path, cx);
    let want = sorted(b.model.elems().iter().map(|k| (k.k, k.tag, 0xFF)).collect());
    let total = want.len();
    cx.here.op = format!("iterators on Set<{},{N}>", K::NAME);
    let pk = |k: &K| -> Code { (k.kd().k, k.kd().tag, 0xFF) };
    let o1 = gwalk!(cx, pm, "Set::iter()", b.bx.c.iter(), pk, total);
    cx.check(pm, sorted(o1.clone()) == want, || format!("Set::iter() yields {o1:?} but the elements are {want:?}"));
    let o2 = gwalk!(cx, pm, "(&set).into_iter()", (&b.bx.c).into_iter(), pk, total);
    cx.check(pm, o1 == o2, || "two traversals of a set differ".to_string());
    drop(b);
    let pm = C10;
    for kind in 0..2u8 {
        for take in 0..=total + 1 {
            for forget in [false, true] {
                let name = ["Set::into_iter", "Set::drain"][kind as usize];
                cx.here.op = format!("{name} on Set<{},{N}> take {take}{}", K::NAME, if forget { " then forget" } else { "" });
                let mut b = sys.build(path, cx);
                let mut got: Vec<Code> = Vec::new();
                let mut held: Vec<K> = Vec::new();
                macro_rules! eat {
                    ($it:expr) => {{
                        let mut it = $it;
                        for step in 0..take {
                            let rem = total.saturating_sub(step.min(total));
                            let l = ExactSizeIterator::len(&it);
                            let sh = it.size_hint();
                            cx.check(pm, l == rem && sh == (rem, Some(rem)), || {
                                format!("{name}: after {step} items len() is {l} and size_hint {sh:?}, but {rem} items are still to come")
                            });
                            if let Some(x) = it.next() {
                                got.push((x.kd().k, x.kd().tag, 0xFF));
                                held.push(x);
                            } else {
                                cx.check(pm, step >= total, || format!("{name}: ended after {step} of {total} items"));
                            }
                        }
                        if forget {
                            std::mem::forget(it);
                        } else {
                            drop(it);
                        }
                    }};
                }
                if kind == 1 {
                    eat!(b.bx.c.drain());
                    let s = &mut b.bx.c;
                    cx.check(pm, s.is_empty() && s.iter().next().is_none(), || format!("after Set::drain the set is not empty: len {}", s.len()));
                    let fill = (N as u8).min(sys.nk);
                    for k in 0..fill {
                        s.insert(K::mk(k, 0));
                    }
                    cx.check(pm, s.len() == fill as usize, || format!("after Set::drain the set cannot be refilled: len {} of {fill}", s.len()));
                } else {
                    let owned = std::mem::replace(&mut b.bx.c, Set::new());
                    eat!(owned.into_iter());
                }
                let mut pool = want.clone();
                let mut ok = got.len() == take.min(total);
                for g in &got {
                    match pool.iter().position(|p| p == g) {
                        Some(i) => {
                            pool.remove(i);
                        }
                        None => ok = false,
                    }
                }
                cx.check(pm | C02, ok, || format!("{name} (take {take}) yielded {got:?} but the set held {want:?}"));
                drop(held);
                drop(b);
                cx.evaluations += 1;
            }
        }
    }
}

fn run_shape<K: KeyT, V: ValT, const N: usize>(rep: &mut EngineReport, nk: u8, nv: u8, threads: usize) {
    let msys = MapSys::<K, V, N>::new(nk, nv, Alpha::Gen);
    let ssys = SetSys::<K, N>::new(nk, SAlpha::Gen, 0);
    let config = format!("element shape: iterators over Map<{},{},{N}> / Set<{},{N}> keys={} values={}", K::NAME, V::NAME, K::NAME, msys.nk, msys.nv);
    let t0 = std::time::Instant::now();
    let mut q = Ctx::new(0);
    let mout = bfs(&msys, threads, &Caps::default(), &mut q);
    let sout = bfs(&ssys, threads, &Caps::default(), &mut q);
    let mut cx = rep.cx.fork();
    cx.here.config = config.clone();
    par_states(mout.states.len(), threads, &mut cx, |s, lcx| {
        let path = mout.path_of(s);
        lcx.here.path_idx = path.clone();
        lcx.here.path = path.iter().map(|i| msys.ops[*i as usize].to_string()).collect();
        lcx.here.extra = format!("shape {}/{}", K::NAME, V::NAME);
        if !mout.states[s].snap.is_empty() {
            lcx.nontrivial += 1;
        }
        shape_map_state::<K, V, N>(&msys, &path, lcx);
    });
    par_states(sout.states.len(), threads, &mut cx, |s, lcx| {
        let path = sout.path_of(s);
        lcx.here.path_idx = path.clone();
        lcx.here.path = path.iter().map(|i| ssys.ops[*i as usize].to_string()).collect();
        lcx.here.extra = format!("shape set {}", K::NAME);
        if !sout.states[s].snap.is_empty() {
            lcx.nontrivial += 1;
        }
        shape_set_state::<K, N>(&ssys, &path, lcx);
    });
    rep.configs.push(
        J::obj()
            .set("config", config)
            .set("map_states", mout.states.len())
            .set("set_states", sout.states.len())
            .set("wall_s", t0.elapsed().as_secs_f64()),
    );
    rep.states += (mout.states.len() + sout.states.len()) as u64;
    rep.transitions += cx.evaluations;
    rep.cx.merge(cx);
}

fn run_shapes<const N: usize>(rep: &mut EngineReport, nk: u8, nv: u8, threads: usize) {
    run_shape::<(), (), N>(rep, nk, nv, threads);
    run_shape::<(), u8, N>(rep, nk, nv, threads);
    run_shape::<u8, (), N>(rep, nk, nv, threads);
    run_shape::<u8, u8, N>(rep, nk, nv, threads);
    run_shape::<u8, mc::payload::Big, N>(rep, nk, nv, threads);
    run_shape::<u8, mc::payload::Al, N>(rep, nk, nv, threads);
    run_shape::<String, String, N>(rep, nk, nv, threads);
    run_shape::<mc::payload::Kn, mc::payload::Vn, N>(rep, nk, nv, threads);
    run_shape::<(), Vx, N>(rep, nk, nv, threads);
    run_shape::<Kx, (), N>(rep, nk, nv, threads);
}

fn run_n<const N: usize>(rep: &mut EngineReport, nk: u8, nv: u8, threads: usize, replay: Option<(Vec<u32>, bool)>) -> i32 {
    let msys = MapSys::<Kx, Vx, N>::new(nk, nv, Alpha::Gen);
    let ssys = SetSys::<Kx, N>::new(nk, SAlpha::Gen, 0);
    let config = format!("iterators over Map<Kx,Vx,{N}> / Set<Kx,{N}> keys={} tags=2 values={}", msys.nk, msys.nv);
    if let Some((path, is_set)) = replay {
        let mut cx = Ctx::new(rep.cx.enabled);
        cx.here.config = config.clone();
        cx.here.path_idx = path.clone();
        if is_set {
            cx.here.path = path.iter().map(|i| ssys.ops[*i as usize].to_string()).collect();
            borrowing_set::<N>(&ssys, &path, &mut cx);
            consuming_set::<N>(&ssys, &path, &mut cx);
            derived_consuming::<N>(&msys, Some((&ssys, &path)), &[], &mut cx);
        } else {
            cx.here.path = path.iter().map(|i| msys.ops[*i as usize].to_string()).collect();
            borrowing_map::<N>(&msys, &path, &mut cx);
            consuming::<N>(&msys, &path, &mut cx);
            derived_consuming::<N>(&msys, None, &path, &mut cx);
        }
        let v: Vec<J> = cx.best.iter().flatten().map(|b| b.to_json()).collect();
        let n = v.len();
        println!("{}", J::obj().set("config", config).set("violations", J::Arr(v)).dump());
        return i32::from(n > 0);
    }
    let t0 = std::time::Instant::now();
    let mut q = Ctx::new(0);
    let mout = bfs(&msys, threads, &Caps::default(), &mut q);
    let sout = bfs(&ssys, threads, &Caps::default(), &mut q);
    let mut cx = rep.cx.fork();
    cx.here.config = config.clone();
    par_states(mout.states.len(), threads, &mut cx, |s, lcx| {
        let path = mout.path_of(s);
        lcx.here.path_idx = path.clone();
        lcx.here.path = path.iter().map(|i| msys.ops[*i as usize].to_string()).collect();
        lcx.here.extra = "map".into();
        lcx.here.op = "borrowing iterators".into();
        lcx.here.op_idx = 0;
        crumb("iter_mc map state");
        lcx.evaluations += 1;
        if !mout.states[s].snap.is_empty() {
            lcx.nontrivial += 1;
        }
        // sections are run only for the properties whose statements cover them
        if lcx.enabled & (C09 | C02 | C06) != 0 {
            borrowing_map::<N>(&msys, &path, lcx);
        }
        if lcx.enabled & (C10 | C02) != 0 {
            consuming::<N>(&msys, &path, lcx);
            derived_consuming::<N>(&msys, None, &path, lcx);
        }
        lcx.sample(|| J::obj().set("history", lcx_path(&path, &msys)).set("state", mout.states[s].snap.render()).set("observed", "all iterator kinds x every step"));
    });
    par_states(sout.states.len(), threads, &mut cx, |s, lcx| {
        let path = sout.path_of(s);
        lcx.here.path_idx = path.clone();
        lcx.here.path = path.iter().map(|i| ssys.ops[*i as usize].to_string()).collect();
        lcx.here.extra = "set".into();
        lcx.here.op = "Set iterators".into();
        lcx.here.op_idx = 1;
        lcx.evaluations += 1;
        if !sout.states[s].snap.is_empty() {
            lcx.nontrivial += 1;
        }
        if lcx.enabled & (C09 | C02 | C06) != 0 {
            borrowing_set::<N>(&ssys, &path, lcx);
        }
        if lcx.enabled & (C10 | C02) != 0 {
            consuming_set::<N>(&ssys, &path, lcx);
            derived_consuming::<N>(&msys, Some((&ssys, &path)), &[], lcx);
        }
    });
    rep.configs.push(
        J::obj()
            .set("config", config)
            .set("map_states", mout.states.len())
            .set("set_states", sout.states.len())
            .set("wall_s", t0.elapsed().as_secs_f64()),
    );
    rep.states += (mout.states.len() + sout.states.len()) as u64;
    rep.transitions += cx.evaluations;
    rep.cx.merge(cx);
    0
}

fn lcx_path<const N: usize>(path: &[u32], s: &MapSys<Kx, Vx, N>) -> Vec<String> {
    path.iter().map(|i| s.ops[*i as usize].to_string()).collect()
}

fn main() {
    let args = Args::from_env();
    silence_panics();
    install_crash_handler(args.get("crumb"));
    let mut rep = EngineReport::new("iter_mc", args.props());
    let ns = args.list_usize("n", &[0, 1, 2, 3]);
    let nv = args.usize("v", 2) as u8;
    let threads = args.threads();
    if let Some(p) = args.get("replay-path") {
        let path = mc::bfs::parse_idx_list(p);
        let is_set = args.get("replay-extra").map(|e| e.contains("set")).unwrap_or(false);
        let n = ns[0];
        let nk = (n + 1) as u8;
        let code = mc::with_n!(n, run_n::<>(&mut rep, nk, nv, threads, Some((path, is_set))));
        std::process::exit(code);
    }
    let shapes = args.flag("shapes");
    for n in ns {
        let nk = (n + 1) as u8;
        if shapes {
            mc::with_n!(n, run_shapes::<>(&mut rep, nk, nv, threads));
        } else {
            mc::with_n!(n, run_n::<>(&mut rep, nk, nv, threads, None));
        }
    }
    std::process::exit(rep.finish(args.get("out")));
}
