//! miri_mc: the lean driver that is run *under Miri* (and natively as a smoke test). The big
//! engines spend most of their time in harness code, which the interpreter makes ~1000x slower;
//! this one enumerates the same kind of executions with almost no harness around them, so that
//! Miri - the execution monitor for what neither ledger nor sanitizer can see: reads of
//! uninitialised memory, invalid `assume_init`, use after free, double free, Stacked Borrows
//! aliasing of `&mut` - sees every one of them within minutes.
//!
//! Elements own heap memory (`Box`), so a double drop, a use of a dead slot or a leak is an
//! interpreter error, not a silent event. Modes:
//!   hist   every operation sequence up to depth D (no state merging) over Map<Kb,Vb,N> and
//!          Set<Kb,N>, judged against a BTreeMap model after every step (light oracle);
//!   panic  every history up to depth D, then every operation with a panic injected at every
//!          user callback position (==, clone, drop, closure), then the survivor is used and dropped;
//!   liar   every history up to depth D (built under an `==` that may answer "not equal" to
//!          create duplicates), then every operation under every tape of <= B lying answers.
//! Exhaustive within the stated bounds; nothing is sampled.

use mc::ctx::*;
use mc::json::J;
use micromap::{Entry, Map, Set};
use std::borrow::Borrow;
use std::cell::Cell;
use std::collections::BTreeMap;
use std::panic::{catch_unwind, AssertUnwindSafe};

thread_local! {
    /// fuse: callback number FUSE panics (u32::MAX: never); TICKS counts callbacks
    static FUSE: Cell<u32> = const { Cell::new(u32::MAX) };
    static TICKS: Cell<u32> = const { Cell::new(0) };
    /// liar tape: bit p set => answer number p of `==` is negated; FORCE_NE: every `==` says false
    static TAPE: Cell<u64> = const { Cell::new(0) };
    static TPOS: Cell<u32> = const { Cell::new(0) };
    static FORCE_NE: Cell<bool> = const { Cell::new(false) };
}

fn tick() {
    let t = TICKS.with(|c| {
        let v = c.get();
        c.set(v + 1);
        v
    });
    if FUSE.with(|f| f.get()) == t && !std::thread::panicking() {
        FUSE.with(|f| f.set(u32::MAX));
        std::panic::panic_any(7u8);
    }
}
fn arm(at: u32) {
    TICKS.with(|c| c.set(0));
    FUSE.with(|f| f.set(at));
}
fn disarm() -> u32 {
    FUSE.with(|f| f.set(u32::MAX));
    TICKS.with(|c| c.get())
}

/// Heap-owning key: equality on the boxed code only (so `tag` makes equal keys distinguishable).
struct Kb(Box<u8>, u8);
impl PartialEq for Kb {
    fn eq(&self, o: &Self) -> bool {
        tick();
        if FORCE_NE.with(|f| f.get()) {
            return false;
        }
        let lawful = *self.0 == *o.0;
        let p = TPOS.with(|c| {
            let v = c.get();
            c.set(v + 1);
            v
        });
        let lie = p < 64 && (TAPE.with(|t| t.get()) >> p) & 1 == 1;
        lawful ^ lie
    }
}
impl Eq for Kb {}
impl Borrow<u8> for Kb {
    fn borrow(&self) -> &u8 {
        &self.0
    }
}
impl Clone for Kb {
    fn clone(&self) -> Self {
        tick();
        Kb(Box::new(*self.0), self.1)
    }
}
impl Drop for Kb {
    fn drop(&mut self) {
        tick();
    }
}
impl std::fmt::Debug for Kb {
    fn fmt(&self, f: &mut std::fmt::Formatter<'_>) -> std::fmt::Result {
        write!(f, "k{}t{}", self.0, self.1)
    }
}
struct Vb(Box<u8>);
impl PartialEq for Vb {
    fn eq(&self, o: &Self) -> bool {
        *self.0 == *o.0
    }
}
impl Clone for Vb {
    fn clone(&self) -> Self {
        tick();
        Vb(Box::new(*self.0))
    }
}
impl Drop for Vb {
    fn drop(&mut self) {
        tick();
    }
}
impl Default for Vb {
    fn default() -> Self {
        Vb(Box::new(9))
    }
}
impl std::fmt::Debug for Vb {
    fn fmt(&self, f: &mut std::fmt::Formatter<'_>) -> std::fmt::Result {
        write!(f, "v{}", self.0)
    }
}
fn kb(k: u8, t: u8) -> Kb {
    Kb(Box::new(k), t)
}
fn vb(v: u8) -> Vb {
    Vb(Box::new(v))
}

#[derive(Clone, Copy, Debug, PartialEq, Eq)]
enum Op {
    Insert(u8, u8, u8),
    InsertKV(u8, u8),
    Checked(u8, u8),
    Unchecked(u8, u8),
    Remove(u8),
    RemoveEntry(u8),
    GetMutWrite(u8),
    IndexMutWrite(u8),
    EntryOrInsert(u8),
    EntryOrDefault(u8),
    EntryAndModify(u8),
    EntryRemove(u8),
    EntryInsert(u8),
    Retain(u8),
    Clear,
    Drain(u8, bool),
    IterMutWrite,
    ValuesMutWrite,
    CloneSwap,
    CloneFrom,
    IntoIter(u8),
    IntoKeys(u8),
    IntoValues(u8),
    Disjoint2(u8, u8),
    Disjoint3(u8, u8, u8),
    DisjointUnchecked2(u8, u8),
    EqClone,
    Recollect,
    Fmt,
    ExtendSelf,
}

fn alphabet(nk: u8, full: bool) -> Vec<Op> {
    let mut a = Vec::new();
    for k in 0..nk {
        a.push(Op::Insert(k, 0, 0));
        a.push(Op::Insert(k, 1, 1));
        a.push(Op::Remove(k));
    }
    for k in 0..nk {
        a.push(Op::InsertKV(k, 1));
        a.push(Op::RemoveEntry(k));
        a.push(Op::EntryOrInsert(k));
        a.push(Op::EntryRemove(k));
    }
    a.push(Op::Retain(0b0101));
    a.push(Op::Clear);
    a.push(Op::Drain(1, true));
    a.push(Op::Drain(1, false));
    a.push(Op::IntoIter(1));
    a.push(Op::CloneSwap);
    if full {
        for k in 0..nk {
            a.push(Op::Checked(k, 0));
            a.push(Op::Unchecked(k, 1));
            a.push(Op::GetMutWrite(k));
            a.push(Op::IndexMutWrite(k));
            a.push(Op::EntryOrDefault(k));
            a.push(Op::EntryAndModify(k));
            a.push(Op::EntryInsert(k));
        }
        a.push(Op::Retain(0b1010));
        a.push(Op::Retain(0));
        a.push(Op::Drain(0, true));
        a.push(Op::Drain(0, false));
        a.push(Op::Drain(2, false));
        a.push(Op::IterMutWrite);
        a.push(Op::ValuesMutWrite);
        a.push(Op::CloneFrom);
        a.push(Op::IntoIter(0));
        a.push(Op::IntoKeys(1));
        a.push(Op::IntoValues(1));
        for k1 in 0..nk {
            for k2 in 0..nk {
                a.push(Op::Disjoint2(k1, k2));
                if k1 != k2 {
                    a.push(Op::DisjointUnchecked2(k1, k2));
                }
            }
        }
        if nk >= 3 {
            a.push(Op::Disjoint3(0, 1, 2));
            a.push(Op::Disjoint3(2, 0, 1));
        }
        a.push(Op::EqClone);
        a.push(Op::Recollect);
        a.push(Op::Fmt);
        a.push(Op::ExtendSelf);
    }
    a
}

/// A sink for formatting that does not allocate per call beyond its buffer.
struct Sink(String);
impl std::fmt::Write for Sink {
    fn write_str(&mut self, s: &str) -> std::fmt::Result {
        if self.0.len() < 256 {
            self.0.push_str(s);
        }
        Ok(())
    }
}

/// Apply one operation to the real map (and, when `model` is given and the run is lawful, to
/// the model, comparing results). Panics raised by the container (overflow, missing index,
/// overlapping keys) are left to the caller's catch_unwind.
fn apply<const N: usize>(m: &mut Map<Kb, Vb, N>, op: Op, model: Option<&mut BTreeMap<u8, u8>>, checks: &mut u64) {
    let full = m.len() >= N;
    let lawful = model.is_some();
    let mut none = BTreeMap::new();
    let md = model.unwrap_or(&mut none);
    macro_rules! same {
        ($a:expr, $b:expr) => {{
            if lawful {
                *checks += 1;
                assert!(($a) == ($b), "result differs from the model");
            }
        }};
    }
    match op {
        Op::Insert(k, t, v) => {
            let present = md.contains_key(&k);
            if lawful && !present && full {
                let r = catch_unwind(AssertUnwindSafe(|| m.insert(kb(k, t), vb(v))));
                assert!(r.is_err(), "insert of a new key into a full map did not panic");
                *checks += 1;
                return;
            }
            let r = m.insert(kb(k, t), vb(v)).map(|x| *x.0);
            same!(r, md.insert(k, v));
        }
        Op::InsertKV(k, v) => {
            let present = md.contains_key(&k);
            if lawful && !present && full {
                let r = catch_unwind(AssertUnwindSafe(|| m.insert_key_value(kb(k, 1), vb(v))));
                assert!(r.is_err(), "insert_key_value of a new key into a full map did not panic");
                *checks += 1;
                return;
            }
            let r = m.insert_key_value(kb(k, 1), vb(v)).map(|(kk, x)| (*kk.0, *x.0));
            same!(r, md.insert(k, v).map(|o| (k, o)));
        }
        Op::Checked(k, v) => {
            let r = m.checked_insert(kb(k, 0), vb(v)).map(|o| o.map(|x| *x.0));
            if lawful {
                let want = if md.contains_key(&k) || !full { Some(md.insert(k, v)) } else { None };
                same!(r, want);
            }
        }
        Op::Unchecked(k, v) => {
            // only inside its contract
            if lawful && (md.contains_key(&k) || !full) {
                let r = unsafe { m.insert_unchecked(kb(k, 1), vb(v)) }.map(|x| *x.0);
                same!(r, md.insert(k, v));
            }
        }
        Op::Remove(k) => {
            let r = m.remove::<u8>(&k).map(|x| *x.0);
            same!(r, md.remove(&k));
        }
        Op::RemoveEntry(k) => {
            let probe = kb(k, 1);
            let r = m.remove_entry::<Kb>(&probe).map(|(kk, x)| (*kk.0, *x.0));
            same!(r, md.remove(&k).map(|o| (k, o)));
        }
        Op::GetMutWrite(k) => {
            let r = m.get_mut::<u8>(&k).map(|x| {
                let old = *x.0;
                *x = vb(5);
                old
            });
            if lawful {
                let want = md.get_mut(&k).map(|x| std::mem::replace(x, 5));
                same!(r, want);
            }
        }
        Op::IndexMutWrite(k) => {
            if lawful && !md.contains_key(&k) {
                let r = catch_unwind(AssertUnwindSafe(|| {
                    m[&k] = vb(6);
                }));
                assert!(r.is_err(), "IndexMut of an absent key did not panic");
                *checks += 1;
            } else {
                m[&k] = vb(6);
                md.insert(k, 6);
            }
        }
        Op::EntryOrInsert(k) => {
            let present = md.contains_key(&k);
            if lawful && !present && full {
                let r = catch_unwind(AssertUnwindSafe(|| {
                    m.entry(kb(k, 1)).or_insert(vb(3));
                }));
                assert!(r.is_err(), "or_insert of a new key into a full map did not panic");
                *checks += 1;
                return;
            }
            let r = m.entry(kb(k, 1)).or_insert(vb(3));
            let got = *r.0;
            *r = vb(got);
            same!(got, *md.entry(k).or_insert(3));
        }
        Op::EntryOrDefault(k) => {
            if lawful && !md.contains_key(&k) && full {
                return;
            }
            let got = *m.entry(kb(k, 0)).or_default().0;
            same!(got, *md.entry(k).or_insert(9));
        }
        Op::EntryAndModify(k) => {
            if lawful && !md.contains_key(&k) && full {
                return;
            }
            let got = *m.entry(kb(k, 0)).and_modify(|x| *x = vb(4)).or_insert_with(|| vb(2)).0;
            same!(got, *md.entry(k).and_modify(|x| *x = 4).or_insert(2));
        }
        Op::EntryRemove(k) => {
            if let Entry::Occupied(e) = m.entry(kb(k, 1)) {
                let (kk, vv) = e.remove_entry();
                same!(Some((*kk.0, *vv.0)), md.remove(&k).map(|o| (k, o)));
            } else {
                same!(false, md.contains_key(&k));
            }
        }
        Op::EntryInsert(k) => match m.entry(kb(k, 1)) {
            Entry::Occupied(mut e) => {
                let old = *e.insert(vb(7)).0;
                let _ = e.key();
                let _ = e.get();
                *e.get_mut() = vb(7);
                same!(Some(old), md.insert(k, 7));
            }
            Entry::Vacant(e) => {
                let _ = e.key();
                let kk = e.into_key();
                same!(false, md.contains_key(&k));
                drop(kk);
            }
        },
        Op::Retain(mask) => {
            m.retain(|kk, vv| {
                if *vv.0 == 0 {
                    *vv = vb(8);
                }
                mask & (1 << *kk.0) != 0
            });
            md.retain(|kk, _| mask & (1 << *kk) != 0);
            for v in md.values_mut() {
                if *v == 0 {
                    *v = 8;
                }
            }
        }
        Op::Clear => {
            m.clear();
            md.clear();
        }
        Op::Drain(take, forget) => {
            let mut held = Vec::new();
            let mut d = m.drain();
            for _ in 0..take {
                if let Some(x) = d.next() {
                    held.push(x);
                }
            }
            let _ = d.len();
            if forget {
                std::mem::forget(d);
            } else {
                drop(d);
            }
            same!(held.len(), (take as usize).min(md.len()));
            md.clear();
            same!(m.len(), 0);
            drop(held);
        }
        Op::IterMutWrite => {
            for (kk, vv) in m.iter_mut() {
                *vv = vb(*kk.0);
            }
            for (kk, vv) in md.iter_mut() {
                *vv = *kk;
            }
        }
        Op::ValuesMutWrite => {
            for vv in m.values_mut() {
                *vv = vb(1);
            }
            for vv in md.values_mut() {
                *vv = 1;
            }
        }
        Op::CloneSwap => {
            let c = m.clone();
            same!(c == *m, true);
            let old = std::mem::replace(m, c);
            drop(old);
        }
        Op::CloneFrom => {
            let mut c: Map<Kb, Vb, N> = Map::new();
            if N > 0 {
                c.insert(kb(0, 0), vb(0));
            }
            c.clone_from(m);
            same!(c == *m, true);
            let old = std::mem::replace(m, c);
            drop(old);
        }
        Op::IntoIter(take) | Op::IntoKeys(take) | Op::IntoValues(take) => {
            let owned = std::mem::replace(m, Map::new());
            let want = (take as usize).min(md.len());
            let got = match op {
                Op::IntoIter(_) => {
                    let mut it = owned.into_iter();
                    let h: Vec<(Kb, Vb)> = it.by_ref().take(take as usize).collect();
                    let _ = it.len();
                    h.len()
                }
                Op::IntoKeys(_) => {
                    let mut it = owned.into_keys();
                    let h: Vec<Kb> = it.by_ref().take(take as usize).collect();
                    h.len()
                }
                _ => {
                    let mut it = owned.into_values();
                    let h: Vec<Vb> = it.by_ref().take(take as usize).collect();
                    h.len()
                }
            };
            same!(got, want);
            md.clear();
        }
        Op::Disjoint2(k1, k2) => {
            if lawful && k1 == k2 && md.contains_key(&k1) {
                let r = catch_unwind(AssertUnwindSafe(|| {
                    let _ = m.get_disjoint_mut([&k1, &k2]);
                }));
                assert!(r.is_err(), "get_disjoint_mut with two equal present keys did not panic");
                *checks += 1;
                return;
            }
            if k1 == k2 {
                let _ = catch_unwind(AssertUnwindSafe(|| {
                    let _ = m.get_disjoint_mut([&k1, &k2]);
                }));
                return;
            }
            let [a, b] = m.get_disjoint_mut([&k1, &k2]);
            same!(a.is_some(), md.contains_key(&k1));
            same!(b.is_some(), md.contains_key(&k2));
            // use both references after both were created
            if let Some(x) = a {
                *x = vb(1);
                md.insert(k1, 1);
            }
            if let Some(y) = b {
                *y = vb(2);
                md.insert(k2, 2);
            }
        }
        Op::Disjoint3(k1, k2, k3) => {
            let probes = [kb(k1, 1), kb(k2, 1), kb(k3, 1)];
            let [a, b, c] = m.get_disjoint_mut([&probes[0], &probes[1], &probes[2]]);
            same!(a.is_some(), md.contains_key(&k1));
            if let Some(z) = c {
                *z = vb(3);
                md.insert(k3, 3);
            }
            if let Some(x) = a {
                *x = vb(1);
                md.insert(k1, 1);
            }
            if let Some(y) = b {
                *y = vb(2);
                md.insert(k2, 2);
            }
        }
        Op::DisjointUnchecked2(k1, k2) => {
            if lawful {
                let [a, b] = unsafe { m.get_disjoint_unchecked_mut([&k1, &k2]) };
                same!(a.is_some(), md.contains_key(&k1));
                if let Some(y) = b {
                    *y = vb(2);
                    md.insert(k2, 2);
                }
                if let Some(x) = a {
                    *x = vb(1);
                    md.insert(k1, 1);
                }
            }
        }
        Op::EqClone => {
            let c = m.clone();
            same!(*m == c && c == *m, true);
        }
        Op::Recollect => {
            let c: Map<Kb, Vb, N> = m.drain().collect();
            *m = c;
        }
        Op::Fmt => {
            use std::fmt::Write;
            let mut s = Sink(String::new());
            let _ = write!(s, "{m:?}{:?}{:?}{:?}", m.iter(), m.keys(), m.values());
            let _ = write!(s, "{:?}", m.iter_mut());
        }
        Op::ExtendSelf => {
            // through the Set API: a set of the same keys, extended with the keys again
            let mut st: Set<Kb, N> = m.keys().cloned().collect();
            let again: Vec<Kb> = m.keys().cloned().collect();
            st.extend(again);
            same!(st.len(), md.len());
            let other: Set<Kb, 4> = md.keys().filter(|k| **k % 2 == 0).map(|k| kb(*k, 1)).collect();
            let n1 = st.union(&other).count();
            let n2 = st.intersection(&other).count() + st.difference(&other).count();
            same!(n1, md.len());
            same!(n2, md.len());
            let d = &st - &other;
            same!(d.len(), md.keys().filter(|k| **k % 2 == 1).count());
            let _ = st.is_subset(&other) || st.is_superset(&other) || st.is_disjoint(&other);
            if let Some(first) = md.keys().next() {
                let t = st.take::<u8>(first);
                same!(t.is_some(), true);
                let _ = st.replace(kb(*first, 1));
            }
            let mut dr = st.drain();
            let _ = dr.next();
            std::mem::forget(dr);
        }
    }
    if lawful {
        *checks += 1;
        assert!(m.len() == md.len(), "len() differs from the model");
        for (k, v) in md.iter() {
            assert!(m.get::<u8>(k).map(|x| *x.0) == Some(*v), "lookup differs from the model");
        }
        assert!(m.iter().count() == md.len(), "iteration length differs from the model");
    }
}

/// Use a container of unknown content normally and drop it.
fn use_and_drop<const N: usize>(mut m: Map<Kb, Vb, N>) {
    let n = m.iter().count();
    assert!(n == m.len() && n <= N, "len()/iteration/capacity disagree");
    for (k, v) in m.iter() {
        let _ = (*k.0, *v.0);
    }
    m.retain(|k, _| *k.0 % 2 == 0);
    if m.len() < N {
        m.insert(kb(5, 0), vb(5));
    }
    let c = m.clone();
    drop(m);
    drop(c);
}

fn decode(mut idx: usize, len: usize, base: usize) -> Vec<usize> {
    let mut s = vec![0; len];
    for i in (0..len).rev() {
        s[i] = idx % base;
        idx /= base;
    }
    s
}

struct Crumb(Option<std::fs::File>);
impl Crumb {
    fn set(&mut self, s: &str) {
        use std::os::unix::fs::FileExt;
        if let Some(f) = &self.0 {
            let mut b = [b' '; 200];
            let n = s.len().min(199);
            b[..n].copy_from_slice(&s.as_bytes()[..n]);
            b[199] = b'\n';
            let _ = f.write_at(&b, 0);
        }
    }
}

fn hist<const N: usize>(depth: usize, full: bool, crumb: &mut Crumb, checks: &mut u64) -> (u64, u64) {
    let nk = (N as u8 + 1).min(3);
    let ops = alphabet(nk, full);
    let names: Vec<String> = ops.iter().map(|o| format!("{o:?}")).collect();
    let (mut seqs, mut steps) = (0u64, 0u64);
    let mut text = String::with_capacity(256);
    for len in 1..=depth {
        for idx in 0..ops.len().pow(len as u32) {
            let seq = decode(idx, len, ops.len());
            text.clear();
            text.push_str("hist N=");
            text.push((b'0' + N as u8) as char);
            for i in &seq {
                text.push(' ');
                text.push_str(&names[*i]);
            }
            crumb.set(&text);
            let mut m: Map<Kb, Vb, N> = Map::new();
            let mut md = BTreeMap::new();
            for i in &seq {
                apply(&mut m, ops[*i], Some(&mut md), checks);
                steps += 1;
            }
            drop(m);
            seqs += 1;
        }
    }
    (seqs, steps)
}

fn panic_mode<const N: usize>(depth: usize, crumb: &mut Crumb, checks: &mut u64) -> (u64, u64) {
    let nk = (N as u8 + 1).min(3);
    let gen = alphabet(nk, false);
    let ops = alphabet(nk, true);
    let gnames: Vec<String> = gen.iter().map(|o| format!("{o:?}")).collect();
    let onames: Vec<String> = ops.iter().map(|o| format!("{o:?}")).collect();
    let mut text = String::with_capacity(256);
    let (mut seqs, mut runs) = (0u64, 0u64);
    for len in 0..=depth {
        for idx in 0..gen.len().pow(len as u32) {
            let seq = decode(idx, len, gen.len());
            seqs += 1;
            for (oi, op) in ops.iter().enumerate() {
                if matches!(op, Op::Unchecked(..) | Op::DisjointUnchecked2(..)) {
                    continue;
                }
                // dry run counts the callbacks of `op` in this state; then one run per position
                let mut at = u32::MAX;
                let mut total = 0;
                text.clear();
                text.push_str("panic N=");
                text.push((b'0' + N as u8) as char);
                for i in &seq {
                    text.push(' ');
                    text.push_str(&gnames[*i]);
                }
                text.push_str(" then ");
                text.push_str(&onames[oi]);
                text.push_str(" (every fuse position)");
                crumb.set(&text);
                loop {
                    let mut m: Map<Kb, Vb, N> = Map::new();
                    let mut md = BTreeMap::new();
                    let mut c0 = 0u64;
                    for i in &seq {
                        apply(&mut m, gen[*i], Some(&mut md), &mut c0);
                    }
                    arm(at);
                    let r = catch_unwind(AssertUnwindSafe(|| apply(&mut m, *op, None, &mut c0)));
                    let ticks = disarm();
                    let _ = r;
                    runs += 1;
                    *checks += 1;
                    use_and_drop(m);
                    if at == u32::MAX {
                        total = ticks;
                        at = 0;
                    } else {
                        at += 1;
                    }
                    if at >= total {
                        break;
                    }
                }
            }
        }
    }
    (seqs, runs)
}

fn liar_mode<const N: usize>(bound: u32, crumb: &mut Crumb, checks: &mut u64) -> (u64, u64) {
    let nk = (N as u8 + 1).min(3);
    let ops = alphabet(nk, true);
    // states: every sequence of keys of length <= N (duplicates included), built under a forced "not equal"
    let mut states: Vec<Vec<u8>> = vec![vec![]];
    let mut level: Vec<Vec<u8>> = vec![vec![]];
    for _ in 0..N {
        let mut next = Vec::new();
        for s in &level {
            for k in 0..nk {
                let mut t = s.clone();
                t.push(k);
                next.push(t);
            }
        }
        states.extend(next.iter().cloned());
        level = next;
    }
    let mut runs = 0u64;
    for st in &states {
        for op in &ops {
            if matches!(op, Op::Unchecked(..) | Op::DisjointUnchecked2(..)) {
                continue;
            }
            // deviation-bounded recursion over tapes
            let mut stack: Vec<(u64, u32, u32)> = vec![(0, 0, 0)];
            while let Some((devs, from, depth)) = stack.pop() {
                if devs == 0 {
                    crumb.set(&format!("liar N={N} state {st:?} {op:?} (every tape)"));
                }
                let mut m: Map<Kb, Vb, N> = Map::new();
                FORCE_NE.with(|f| f.set(true));
                for k in st {
                    m.insert(kb(*k, 0), vb(0));
                }
                FORCE_NE.with(|f| f.set(false));
                TAPE.with(|t| t.set(devs));
                TPOS.with(|c| c.set(0));
                let mut c0 = 0u64;
                let r = catch_unwind(AssertUnwindSafe(|| apply(&mut m, *op, None, &mut c0)));
                let calls = TPOS.with(|c| c.get());
                TAPE.with(|t| t.set(0));
                let _ = r;
                runs += 1;
                *checks += 1;
                // comparison-free use of the survivor, then drop
                let n = m.iter().count();
                assert!(n == m.len() && n <= N, "len()/iteration/capacity disagree under a lying ==");
                m.retain(|k, _| *k.0 % 2 == 0);
                drop(m);
                if depth < bound {
                    for p in from..calls.min(64) {
                        stack.push((devs | (1u64 << p), p + 1, depth + 1));
                    }
                }
            }
        }
    }
    (states.len() as u64, runs)
}

fn main() {
    let args = Args::from_env();
    silence_panics();
    let pm = args.props();
    let mut rep = EngineReport::new("miri_mc", pm);
    let mode = args.get("mode").unwrap_or("hist").to_string();
    let ns = args.list_usize("n", &[1, 2]);
    let depth = args.usize("depth", 2);
    let full = !args.flag("gen");
    let bound = args.usize("dev", 2) as u32;
    let mut crumb = Crumb(args.get("crumb").and_then(|p| std::fs::OpenOptions::new().create(true).write(true).truncate(true).open(p).ok()));
    let mut checks = 0u64;
    for n in ns {
        let t0 = std::time::Instant::now();
        let (a, b) = match (mode.as_str(), n) {
            ("hist", 0) => hist::<0>(depth, full, &mut crumb, &mut checks),
            ("hist", 1) => hist::<1>(depth, full, &mut crumb, &mut checks),
            ("hist", 2) => hist::<2>(depth, full, &mut crumb, &mut checks),
            ("hist", _) => hist::<3>(depth, full, &mut crumb, &mut checks),
            ("panic", 0) => panic_mode::<0>(depth, &mut crumb, &mut checks),
            ("panic", 1) => panic_mode::<1>(depth, &mut crumb, &mut checks),
            ("panic", 2) => panic_mode::<2>(depth, &mut crumb, &mut checks),
            ("panic", _) => panic_mode::<3>(depth, &mut crumb, &mut checks),
            ("liar", 0) => liar_mode::<0>(bound, &mut crumb, &mut checks),
            ("liar", 1) => liar_mode::<1>(bound, &mut crumb, &mut checks),
            ("liar", 2) => liar_mode::<2>(bound, &mut crumb, &mut checks),
            (_, _) => liar_mode::<3>(bound, &mut crumb, &mut checks),
        };
        rep.configs.push(
            J::obj()
                .set("config", format!("miri_mc mode={mode} Map<Kb(Box),Vb(Box),{n}> depth<={depth} full_alphabet={full} lies<={bound}"))
                .set(if mode == "liar" { "layouts" } else { "histories" }, a)
                .set(if mode == "hist" { "steps" } else { "runs" }, b)
                .set("wall_s", t0.elapsed().as_secs_f64()),
        );
        rep.states += a;
        rep.transitions += b;
        rep.cx.evaluations += b;
        rep.cx.nontrivial += b;
    }
    for i in 1..NPROPS {
        if pm & (1 << i) != 0 {
            rep.cx.checks[i] += checks;
        }
    }
    rep.cx.samples.push(
        J::obj()
            .set("mode", mode.as_str())
            .set("what", "every history / fault position / lying tape within the bounds, on heap-owning elements, executed with no harness around it; the interpreter is the oracle (plus a BTreeMap model in lawful runs)"),
    );
    crumb.set("done");
    std::process::exit(rep.finish(args.get("out")));
}
