//! eq_mc (C14): equality is extensional. Operand A ranges over the containers produced by
//! EVERY history (insert/remove sequences up to a depth, no state merging - so the dead slots
//! hold every reachable kind of stale content), operand B over every fresh layout of every
//! subset of the universe with every value assignment, for several capacity pairs; A == B,
//! B == A, A == A are compared with the model; operands must be unchanged, nothing cloned or
//! destroyed. A second pass compares history-built containers with each other.

use mc::bfs::par_states;
use mc::ctx::*;
use mc::json::J;
use mc::mapsys::flush_ledger;
use mc::payload::{self as pl, Kx, Vx};
use micromap::{Map, Set};
use std::collections::BTreeMap;

const PM: PMask = C14;

#[derive(Clone, Copy, Debug)]
enum HOp {
    Ins(u8, u8),
    Rem(u8),
}

fn hops(k: u8, v: u8) -> Vec<HOp> {
    let mut o = Vec::new();
    for kk in 0..k {
        for vv in 0..v {
            o.push(HOp::Ins(kk, vv));
        }
    }
    for kk in 0..k {
        o.push(HOp::Rem(kk));
    }
    o
}

/// histories of length exactly `len`, index -> sequence
fn decode(mut idx: usize, len: usize, nops: usize) -> Vec<usize> {
    let mut s = vec![0; len];
    for i in (0..len).rev() {
        s[i] = idx % nops;
        idx /= nops;
    }
    s
}

fn apply_hist<const N: usize>(ops: &[HOp], seq: &[usize]) -> Option<(Box<Canary<Map<Kx, Vx, N>>>, BTreeMap<u8, u8>)> {
    let mut bx = Canary::boxed(Map::<Kx, Vx, N>::new());
    let mut model = BTreeMap::new();
    for i in seq {
        match ops[*i] {
            HOp::Ins(k, v) => {
                if !model.contains_key(&k) && model.len() >= N {
                    return None; // history not executable at this capacity
                }
                bx.c.insert(Kx::new(k, 0), Vx::new(v));
                model.insert(k, v);
            }
            HOp::Rem(k) => {
                bx.c.remove::<u8>(&k);
                model.remove(&k);
            }
        }
    }
    Some((bx, model))
}

/// every fresh layout: ordered subsets of keys with every value assignment
fn layouts(k: u8, v: u8, cap: usize) -> Vec<Vec<(u8, u8)>> {
    let mut out: Vec<Vec<(u8, u8)>> = vec![vec![]];
    let mut frontier: Vec<Vec<(u8, u8)>> = vec![vec![]];
    for _ in 0..cap.min(k as usize) {
        let mut next = Vec::new();
        for a in &frontier {
            for kk in 0..k {
                if a.iter().any(|e| e.0 == kk) {
                    continue;
                }
                for vv in 0..v {
                    let mut b = a.clone();
                    b.push((kk, vv));
                    next.push(b);
                }
            }
        }
        out.extend(next.iter().cloned());
        frontier = next;
    }
    out
}

fn fresh<const M: usize>(l: &[(u8, u8)]) -> Box<Canary<Map<Kx, Vx, M>>> {
    let mut bx = Canary::boxed(Map::<Kx, Vx, M>::new());
    for (k, v) in l {
        bx.c.insert(Kx::new(*k, 1), Vx::new(*v));
    }
    bx
}

fn classify(a: &BTreeMap<u8, u8>, b: &BTreeMap<u8, u8>) -> &'static str {
    if a == b {
        return "equal";
    }
    if a.len() != b.len() {
        if a.iter().all(|(k, v)| b.get(k) == Some(v)) || b.iter().all(|(k, v)| a.get(k) == Some(v)) {
            return "differ:subset-with-same-values";
        }
        return "differ:len";
    }
    let same_keys = a.keys().eq(b.keys());
    if same_keys {
        let nd = a.iter().filter(|(k, v)| b.get(k) != Some(v)).count();
        if nd == 1 {
            "differ:one-value"
        } else {
            "differ:values"
        }
    } else {
        let nd = a.keys().filter(|k| !b.contains_key(k)).count();
        if nd == 1 {
            "differ:one-key-same-len"
        } else {
            "differ:keys-same-len"
        }
    }
}

fn snap<const N: usize>(m: &Map<Kx, Vx, N>) -> Vec<(u32, u32)> {
    m.iter().map(|(k, v)| (k.desc().id, v.desc().id)).collect()
}

fn judge_pair<const N: usize, const M: usize>(cx: &mut Ctx, a: &Map<Kx, Vx, N>, am: &BTreeMap<u8, u8>, b: &Map<Kx, Vx, M>, bm: &BTreeMap<u8, u8>) {
    let want = am == bm;
    let sa = snap(a);
    let sb = snap(b);
    let c0 = pl::counts();
    let ab = a == b;
    let ba = b == a;
    let c1 = pl::counts();
    cx.check(PM, ab == want, || format!("A == B is {ab} but the contents are {am:?} vs {bm:?}"));
    cx.check(PM, ba == want, || format!("B == A is {ba} but the contents are {bm:?} vs {am:?}"));
    cx.check(PM, ab == ba, || format!("not symmetric: A == B is {ab}, B == A is {ba}"));
    cx.check(
        PM,
        c1[pl::Cb::Clone as usize] == c0[pl::Cb::Clone as usize] && c1[pl::Cb::Drop as usize] == c0[pl::Cb::Drop as usize],
        || "comparison cloned or destroyed an element".to_string(),
    );
    cx.check(PM, snap(a) == sa && snap(b) == sb, || "comparison modified an operand".to_string());
    cx.class(classify(am, bm));
    cx.evaluations += 1;
    if !am.is_empty() || !bm.is_empty() {
        cx.nontrivial += 1;
    }
}

/// Pass 1: every history of A (cap N) x every fresh layout of B (cap M).
fn hist_vs_fresh<const N: usize, const M: usize>(rep: &mut EngineReport, k: u8, v: u8, depth: usize, threads: usize) {
    let ops = hops(k, v);
    let ls = layouts(k, v, M);
    let lms: Vec<BTreeMap<u8, u8>> = ls.iter().map(|l| l.iter().copied().collect()).collect();
    let config = format!("Map<Kx,Vx,{N}> built by every history of length <= {depth} over {} ops  ==  every fresh layout of Map<Kx,Vx,{M}> ({} layouts); keys={k} values={v}", ops.len(), ls.len());
    let mut cx = rep.cx.fork();
    cx.here.config = config.clone();
    let t0 = std::time::Instant::now();
    let mut total_hist = 0usize;
    for len in 0..=depth {
        let nh = ops.len().pow(len as u32);
        total_hist += nh;
        let done = std::sync::atomic::AtomicUsize::new(0);
        par_states(nh, threads, &mut cx, |h, lcx| {
            let seq = decode(h, len, ops.len());
            pl::reset();
            let Some((a, am)) = apply_hist::<N>(&ops, &seq) else { return };
            done.fetch_add(1, std::sync::atomic::Ordering::Relaxed);
            lcx.here.path = seq.iter().map(|i| format!("{:?}", ops[*i])).collect();
            lcx.here.path_idx = seq.iter().map(|i| *i as u32).collect();
            lcx.here.extra = format!("caps={N},{M}");
            // reflexive
            let r = a.c == a.c;
            lcx.here.op = "A == A".into();
            lcx.check(PM, r, || format!("A == A is false for {am:?}"));
            for (li, l) in ls.iter().enumerate() {
                lcx.here.op = format!("eq with fresh B={l:?}");
                lcx.here.op_idx = li as u32;
                let b = fresh::<M>(l);
                judge_pair(lcx, &a.c, &am, &b.c, &lms[li]);
                drop(b);
            }
            lcx.check(PM, a.intact(), || "canary overwritten".to_string());
            flush_ledger(lcx, PM | C02, "comparing (a stale or uninitialised slot was used)");
            lcx.sample(|| J::obj().set("history_of_A", lcx_hist(&ops, &seq)).set("A", format!("{am:?}")).set("compared_with", format!("{} fresh layouts of capacity {M}", ls.len())));
            drop(a);
        });
        rep.states += done.load(std::sync::atomic::Ordering::Relaxed) as u64;
    }
    rep.configs.push(
        J::obj()
            .set("config", config)
            .set("histories", total_hist)
            .set("fresh_layouts", ls.len())
            .set("wall_s", t0.elapsed().as_secs_f64()),
    );
    rep.transitions += cx.evaluations;
    rep.cx.merge(cx);
}

/// Element shapes for equality: every fresh layout (every ordered subset of the universe with every value
/// assignment - so every permutation and rotation of the same contents) against every fresh layout, for
/// value types of other sizes: 128-byte and 64-byte over-aligned values, zero-sized values, `String`.
fn shapes_pass<V: mc::payload::ValT, const N: usize, const M: usize>(rep: &mut EngineReport, k: u8, v: u8, threads: usize) {
    let la = layouts(k, v, N);
    let lb = layouts(k, v, M);
    let config = format!("Map<u8,{},{N}> == Map<u8,{},{M}>: every fresh layout against every fresh layout ({} x {}); keys={k} values={v}", V::NAME, V::NAME, la.len(), lb.len());
    let mut cx = rep.cx.fork();
    cx.here.config = config.clone();
    let t0 = std::time::Instant::now();
    par_states(la.len(), threads, &mut cx, |i, lcx| {
        let mut a: Map<u8, V, N> = Map::new();
        for (kk, vv) in &la[i] {
            a.insert(*kk, V::mk(*vv));
        }
        let am: BTreeMap<u8, u8> = la[i].iter().map(|(kk, vv)| (*kk, V::mk(*vv).vd().v)).collect();
        lcx.here.path = vec![format!("A = {:?} (slot order as listed)", la[i])];
        lcx.here.path_idx = vec![i as u32];
        lcx.here.extra = format!("caps={N},{M} shape {}", V::NAME);
        for (j, l) in lb.iter().enumerate() {
            let mut b: Map<u8, V, M> = Map::new();
            for (kk, vv) in l {
                b.insert(*kk, V::mk(*vv));
            }
            let bm: BTreeMap<u8, u8> = l.iter().map(|(kk, vv)| (*kk, V::mk(*vv).vd().v)).collect();
            lcx.here.op = format!("eq with B = {l:?}");
            lcx.here.op_idx = j as u32;
            lcx.evaluations += 1;
            if !am.is_empty() || !bm.is_empty() {
                lcx.nontrivial += 1;
            }
            let want = am == bm;
            let (ab, ba) = (a == b, b == a);
            lcx.check(PM, ab == want && ba == want, || format!("A == B is {ab}, B == A is {ba}, but the contents are {am:?} vs {bm:?}"));
        }
        let r = a == a;
        lcx.check(PM, r, || "A == A is false".to_string());
    });
    rep.configs.push(J::obj().set("config", config).set("pairs", la.len() * lb.len()).set("wall_s", t0.elapsed().as_secs_f64()));
    rep.states += (la.len() + lb.len()) as u64;
    rep.transitions += cx.evaluations;
    rep.cx.merge(cx);
}

fn lcx_hist(ops: &[HOp], seq: &[usize]) -> Vec<String> {
    seq.iter().map(|i| format!("{:?}", ops[*i])).collect()
}

/// Pass 2: history-built A x history-built B (both with stale slots), shorter histories.
fn hist_vs_hist<const N: usize, const M: usize>(rep: &mut EngineReport, k: u8, v: u8, depth: usize, threads: usize) {
    let ops = hops(k, v);
    let mut hs: Vec<Vec<usize>> = Vec::new();
    for len in 0..=depth {
        for h in 0..ops.len().pow(len as u32) {
            hs.push(decode(h, len, ops.len()));
        }
    }
    let config = format!("Map<Kx,Vx,{N}> x Map<Kx,Vx,{M}>, both built by every history of length <= {depth} ({} histories each); keys={k} values={v}", hs.len());
    let mut cx = rep.cx.fork();
    cx.here.config = config.clone();
    let t0 = std::time::Instant::now();
    par_states(hs.len(), threads, &mut cx, |i, lcx| {
        pl::reset();
        let Some((a, am)) = apply_hist::<N>(&ops, &hs[i]) else { return };
        lcx.here.path = lcx_hist(&ops, &hs[i]);
        lcx.here.path_idx = hs[i].iter().map(|x| *x as u32).collect();
        lcx.here.extra = format!("caps={N},{M} hist-vs-hist");
        for (j, hb) in hs.iter().enumerate() {
            let Some((b, bm)) = apply_hist::<M>(&ops, hb) else { continue };
            lcx.here.op = format!("eq with B built by {:?}", lcx_hist(&ops, hb));
            lcx.here.op_idx = j as u32;
            judge_pair(lcx, &a.c, &am, &b.c, &bm);
            drop(b);
        }
        flush_ledger(lcx, PM | C02, "comparing (a stale or uninitialised slot was used)");
        drop(a);
    });
    rep.configs.push(J::obj().set("config", config).set("histories", hs.len()).set("wall_s", t0.elapsed().as_secs_f64()));
    rep.states += hs.len() as u64;
    rep.transitions += cx.evaluations;
    rep.cx.merge(cx);
}

/// Sets: same idea through the Set API.
fn sets<const N: usize, const M: usize>(rep: &mut EngineReport, k: u8, depth: usize, threads: usize) {
    let ops = hops(k, 1);
    let mut hs: Vec<Vec<usize>> = Vec::new();
    for len in 0..=depth {
        for h in 0..ops.len().pow(len as u32) {
            hs.push(decode(h, len, ops.len()));
        }
    }
    let ls = layouts(k, 1, M);
    let config = format!("Set<Kx,{N}> by every history of length <= {depth} ({}) == every fresh layout of Set<Kx,{M}> ({})", hs.len(), ls.len());
    let mut cx = rep.cx.fork();
    cx.here.config = config.clone();
    let t0 = std::time::Instant::now();
    par_states(hs.len(), threads, &mut cx, |i, lcx| {
        pl::reset();
        let mut a = Canary::boxed(Set::<Kx, N>::new());
        let mut am: Vec<u8> = Vec::new();
        for o in &hs[i] {
            match ops[*o] {
                HOp::Ins(kk, _) => {
                    if !am.contains(&kk) && am.len() >= N {
                        return;
                    }
                    a.c.insert(Kx::new(kk, 0));
                    if !am.contains(&kk) {
                        am.push(kk);
                    }
                }
                HOp::Rem(kk) => {
                    a.c.remove::<u8>(&kk);
                    am.retain(|x| *x != kk);
                }
            }
        }
        am.sort();
        lcx.here.path = lcx_hist(&ops, &hs[i]);
        lcx.here.path_idx = hs[i].iter().map(|x| *x as u32).collect();
        lcx.here.extra = format!("caps={N},{M} sets");
        for (li, l) in ls.iter().enumerate() {
            let mut b = Set::<Kx, M>::new();
            for (kk, _) in l {
                b.insert(Kx::new(*kk, 1));
            }
            let mut bm: Vec<u8> = l.iter().map(|e| e.0).collect();
            bm.sort();
            let want = am == bm;
            lcx.here.op = format!("set eq with fresh B={bm:?}");
            lcx.here.op_idx = li as u32;
            let ab = a.c == b;
            let ba = b == a.c;
            lcx.check(PM, ab == want && ba == want, || format!("sets {am:?} and {bm:?}: A == B is {ab}, B == A is {ba}"));
            lcx.evaluations += 1;
            lcx.nontrivial += 1;
        }
        let r = a.c == a.c;
        lcx.check(PM, r, || "set != itself".to_string());
        flush_ledger(lcx, PM | C02, "comparing sets");
    });
    rep.configs.push(J::obj().set("config", config).set("wall_s", t0.elapsed().as_secs_f64()));
    rep.states += hs.len() as u64;
    rep.transitions += cx.evaluations;
    rep.cx.merge(cx);
}

fn replay_one<const N: usize, const M: usize>(k: u8, v: u8, path: &[u32], props: PMask, extra: &str) -> i32 {
    let ops = hops(k, if extra.contains("sets") { 1 } else { v });
    let seq: Vec<usize> = path.iter().map(|x| *x as usize).collect();
    let mut cx = Ctx::new(props);
    cx.here.path = lcx_hist(&ops, &seq);
    pl::reset();
    if let Some((a, am)) = apply_hist::<N>(&ops, &seq) {
        for l in layouts(k, v, M) {
            let b = fresh::<M>(&l);
            let bm: BTreeMap<u8, u8> = l.iter().copied().collect();
            cx.here.op = format!("eq with fresh B={l:?}");
            judge_pair(&mut cx, &a.c, &am, &b.c, &bm);
        }
        flush_ledger(&mut cx, PM | C02, "comparing (a stale or uninitialised slot was used)");
    }
    let vv: Vec<J> = cx.best.iter().flatten().map(|b| b.to_json()).collect();
    let n = vv.len();
    println!("{}", J::obj().set("violations", J::Arr(vv)).dump());
    i32::from(n > 0)
}

fn main() {
    let args = Args::from_env();
    silence_panics();
    install_crash_handler(args.get("crumb"));
    let mut rep = EngineReport::new("eq_mc", args.props());
    let k = args.usize("k", 3) as u8;
    let v = args.usize("v", 2) as u8;
    let depth = args.usize("depth", 4);
    let depth2 = args.usize("depth2", 2);
    let threads = args.threads();
    if let Some(p) = args.get("replay-path") {
        let path = mc::bfs::parse_idx_list(p);
        let extra = args.get("replay-extra").unwrap_or("caps=3,3").to_string();
        let caps: Vec<usize> = extra.split("caps=").nth(1).map(|c| c.split([',', ' ']).filter_map(|x| x.parse().ok()).collect()).unwrap_or_default();
        let code = match (caps.first().copied().unwrap_or(3), caps.get(1).copied().unwrap_or(3)) {
            (0, 0) => replay_one::<0, 0>(k, v, &path, args.props(), &extra),
            (0, 3) => replay_one::<0, 3>(k, v, &path, args.props(), &extra),
            (3, 0) => replay_one::<3, 0>(k, v, &path, args.props(), &extra),
            (3, 4) => replay_one::<3, 4>(k, v, &path, args.props(), &extra),
            (4, 3) => replay_one::<4, 3>(k, v, &path, args.props(), &extra),
            (2, 3) => replay_one::<2, 3>(k, v, &path, args.props(), &extra),
            _ => replay_one::<3, 3>(k, v, &path, args.props(), &extra),
        };
        std::process::exit(code);
    }
    hist_vs_fresh::<0, 0>(&mut rep, k, v, 1, threads);
    hist_vs_fresh::<0, 3>(&mut rep, k, v, 1, threads);
    hist_vs_fresh::<3, 0>(&mut rep, k, v, depth.min(3), threads);
    hist_vs_fresh::<3, 3>(&mut rep, k, v, depth, threads);
    hist_vs_fresh::<3, 4>(&mut rep, k, v, depth, threads);
    hist_vs_fresh::<4, 3>(&mut rep, k, v, depth, threads);
    hist_vs_fresh::<2, 3>(&mut rep, k, v, depth, threads);
    hist_vs_hist::<3, 3>(&mut rep, k, v, depth2, threads);
    hist_vs_hist::<4, 3>(&mut rep, k, v, depth2, threads);
    hist_vs_hist::<2, 4>(&mut rep, k, v, depth2, threads);
    sets::<3, 3>(&mut rep, k, depth, threads);
    sets::<4, 2>(&mut rep, k, depth, threads);
    sets::<0, 3>(&mut rep, k, 1, threads);
    let ks = k.max(4);
    shapes_pass::<mc::payload::Big, 4, 4>(&mut rep, ks, v, threads);
    shapes_pass::<mc::payload::Big, 3, 4>(&mut rep, ks, v, threads);
    shapes_pass::<mc::payload::Al, 4, 4>(&mut rep, ks, v, threads);
    shapes_pass::<(), 4, 3>(&mut rep, ks, 1, threads);
    shapes_pass::<String, 4, 4>(&mut rep, ks, v, threads);
    shapes_pass::<u8, 4, 4>(&mut rep, ks, v, threads);
    // non-vacuity: every difference class must have been seen
    for c in ["equal", "differ:one-value", "differ:one-key-same-len", "differ:len", "differ:subset-with-same-values"] {
        if rep.cx.classes.get(c).copied().unwrap_or(0) == 0 && rep.cx.enabled & PM != 0 {
            rep.cx.machinery(format!("vacuity: no pair of class '{c}' was compared"));
        }
    }
    std::process::exit(rep.finish(args.get("out")));
}
