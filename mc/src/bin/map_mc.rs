//! map_mc: fixpoint BFS over the real `Map<Kx, Vx, N>` with the full alphabet, judged per
//! step against the reference model, the ownership ledger and the invariants.
//! Serves C01, C02, C03, C05, C11, C12, C18 (and contributes to C06, C09, C10).

use mc::bfs::{abstract_closed_form, bfs, layouts_closed_form, Caps};
use mc::ctx::*;
use mc::json::J;
use mc::mapsys::{Alpha, MapSys};
use mc::payload::{Big, KeyT, Kx, ValT, Vx};
use std::collections::HashSet;
use std::time::Duration;

fn run_bfs<K: KeyT, V: ValT, const N: usize>(rep: &mut EngineReport, nk: u8, nv: u8, alpha: Alpha, threads: usize, caps: &Caps) {
    let sys = MapSys::<K, V, N>::new(nk, nv, alpha);
    let mut cx = rep.cx.fork();
    cx.here.config = mc::bfs::Sys::config(&sys);
    let t0 = std::time::Instant::now();
    let out = bfs(&sys, threads, caps, &mut cx);
    let abs: HashSet<Vec<(u8, u8, u8)>> = out.states.iter().map(|s| s.snap.abstracted()).collect();
    // or_default() stores Default::default(), which for some value types lies outside the alphabet
    // (only the entry API's or_default does that, and it is executed only for the properties covering it)
    let entry_runs = mc::mapsys::MapOp::Entry { k: 0, t: 0, chain: mc::mapsys::EChain::OrDefault, v: 0 }.relevant() & cx.enabled != 0;
    let vals = sys.nv as usize + usize::from(V::DEFAULT_CODE >= sys.nv && entry_runs);
    let a = (K::TAGS as usize) * vals;
    let want_abs = abstract_closed_form(N, sys.nk as usize, a);
    let layouts = layouts_closed_form(N, sys.nk as usize, a);
    let nan = mc::payload::nan_code().is_some();
    if nan {
        cx.here.config.push_str(&format!(" [key k{} is not equal to itself]", sys.nk - 1));
    }
    if !nan && out.capped.is_none() && cx.total_violations() == 0 && abs.len() as u64 != want_abs {
        cx.machinery(format!(
            "vacuity: {} distinct abstract states visited, closed form says {want_abs} ({})",
            abs.len(),
            cx.here.config
        ));
    }
    if let Some(c) = &out.capped {
        rep.caps_hit.push(format!("{}: {c}", cx.here.config));
    }
    rep.configs.push(
        J::obj()
            .set("config", cx.here.config.clone())
            .set("ops_in_alphabet", sys.ops.len())
            .set("states", out.states.len())
            .set("abstract_states", abs.len())
            .set("abstract_closed_form", want_abs)
            .set("layouts_closed_form", layouts)
            .set("transitions", out.transitions)
            .set("max_depth", out.max_depth as u64)
            .set("wall_s", t0.elapsed().as_secs_f64()),
    );
    rep.states += out.states.len() as u64;
    rep.transitions += out.transitions;
    rep.cx.merge(cx);
}

/// History mode: every operation sequence of length <= depth over the reduced alphabet, with NO
/// state merging; the last op of each sequence is judged (so every (history, op) is judged once).
/// Dead slots therefore hold every kind of stale content a history can leave behind.
fn run_hist<K: KeyT, V: ValT, const N: usize>(rep: &mut EngineReport, nk: u8, nv: u8, depth: usize, threads: usize) {
    use mc::bfs::Sys;
    let sys = MapSys::<K, V, N>::new(nk, nv, Alpha::Hist);
    let nops = sys.ops.len();
    let mut cx = rep.cx.fork();
    cx.here.config = format!("{} depth<={depth} (no state merging)", sys.config());
    let t0 = std::time::Instant::now();
    let mut total = 0u64;
    for len in 1..=depth {
        let n = nops.pow(len as u32);
        total += n as u64;
        mc::bfs::par_states(n, threads, &mut cx, |mut idx, lcx| {
            let mut seq = vec![0u32; len];
            for i in (0..len).rev() {
                seq[i] = (idx % nops) as u32;
                idx /= nops;
            }
            let (path, op) = seq.split_at(len - 1);
            lcx.here.path_idx = path.to_vec();
            lcx.here.path = path.iter().map(|i| sys.op_name(*i as usize)).collect();
            lcx.here.op_idx = op[0];
            sys.run(path, Some(op[0]), lcx);
        });
    }
    rep.configs.push(
        J::obj()
            .set("config", cx.here.config.as_str())
            .set("ops_in_alphabet", nops)
            .set("sequences", total)
            .set("wall_s", t0.elapsed().as_secs_f64()),
    );
    rep.states += total;
    rep.transitions += cx.evaluations;
    rep.cx.merge(cx);
}

fn run_replay<K: KeyT, V: ValT, const N: usize>(nk: u8, nv: u8, alpha: Alpha, path: &[u32], op: Option<u32>, props: PMask) -> i32 {
    let sys = MapSys::<K, V, N>::new(nk, nv, alpha);
    let (code, j) = mc::bfs::replay(&sys, path, op, props);
    println!("{}", j.dump());
    code
}

fn main() {
    let args = Args::from_env();
    silence_panics();
    install_crash_handler(args.get("crumb"));
    let mut rep = EngineReport::new("map_mc", args.props());
    let ns = args.list_usize("n", &[0, 1, 2, 3]);
    let nv = args.usize("v", 2) as u8;
    let extra_k = args.usize("extra-k", 1);
    let threads = args.threads();
    let caps = Caps {
        max_states: args.usize("max-states", 8_000_000),
        wall: Duration::from_secs(args.usize("wall", 3000) as u64),
    };
    let alpha = match args.get("alpha").unwrap_or("full") {
        "gen" => Alpha::Gen,
        "hist" => Alpha::Hist,
        _ => Alpha::Full,
    };
    if let Some(p) = args.get("replay-path") {
        let path = mc::bfs::parse_idx_list(p);
        let op = args.get("replay-op").and_then(|x| x.parse().ok());
        let n = ns[0];
        let nk = (n + extra_k).max(1) as u8;
        let props = args.props();
        if args.flag("nan") {
            mc::payload::set_nan_code(Some(nk - 1));
        }
        // the replay runs on the same element types as the exploration that produced it
        let code = match args.get("payload").unwrap_or("kx") {
            "nodrop" => mc::with_n!(n, run_replay::<mc::payload::Kn, mc::payload::Vn>(nk, nv, alpha, &path, op, props)),
            "u8" => mc::with_n!(n, run_replay::<u8, u8>(nk, nv, alpha, &path, op, props)),
            "string" => mc::with_n!(n, run_replay::<String, String>(nk, nv, alpha, &path, op, props)),
            "path" => mc::with_n!(n, run_replay::<std::path::PathBuf, u8>(nk, nv, alpha, &path, op, props)),
            "unitkey" => mc::with_n!(n, run_replay::<(), Vx>(nk, nv, alpha, &path, op, props)),
            "zstval" => mc::with_n!(n, run_replay::<Kx, ()>(nk, nv, alpha, &path, op, props)),
            "zstcount" => mc::with_n!(n, run_replay::<Kx, mc::payload::Zc>(nk, nv, alpha, &path, op, props)),
            "big" => mc::with_n!(n, run_replay::<u8, Big>(nk, nv, alpha, &path, op, props)),
            "zst" => mc::with_n!(n, run_replay::<(), ()>(nk, nv, alpha, &path, op, props)),
            "aligned" => mc::with_n!(n, run_replay::<u8, mc::payload::Al>(nk, nv, alpha, &path, op, props)),
            "strbig" => mc::with_n!(n, run_replay::<String, Big>(nk, nv, alpha, &path, op, props)),
            _ => mc::with_n!(n, run_replay::<Kx, Vx>(nk, nv, alpha, &path, op, props)),
        };
        std::process::exit(code);
    }
    let hist_depth = args.usize("hist", 0);
    // element shapes: the same exploration on other key/value types
    let payload = args.get("payload").unwrap_or("kx").to_string();
    for n in ns {
        let nk = (n + extra_k).max(1) as u8;
        if alpha == Alpha::Hist {
            mc::with_n!(n, run_hist::<Kx, Vx>(&mut rep, nk, nv, hist_depth.max(1), threads));
            continue;
        }
        if args.flag("nan") {
            // non-reflexive key mode: the last key of the universe compares unequal to itself
            mc::payload::set_nan_code(Some(nk - 1));
            mc::with_n!(n, run_bfs::<Kx, Vx>(&mut rep, nk, nv, alpha, threads, &caps));
            mc::payload::set_nan_code(None);
            continue;
        }
        match payload.as_str() {
            "nodrop" => mc::with_n!(n, run_bfs::<mc::payload::Kn, mc::payload::Vn>(&mut rep, nk, nv, alpha, threads, &caps)),
            "u8" => mc::with_n!(n, run_bfs::<u8, u8>(&mut rep, nk, nv, alpha, threads, &caps)),
            "string" => mc::with_n!(n, run_bfs::<String, String>(&mut rep, nk, nv, alpha, threads, &caps)),
            "path" => mc::with_n!(n, run_bfs::<std::path::PathBuf, u8>(&mut rep, nk, nv, alpha, threads, &caps)),
            "unitkey" => mc::with_n!(n, run_bfs::<(), Vx>(&mut rep, nk, nv, alpha, threads, &caps)),
            "zstval" => mc::with_n!(n, run_bfs::<Kx, ()>(&mut rep, nk, nv, alpha, threads, &caps)),
            "zstcount" => mc::with_n!(n, run_bfs::<Kx, mc::payload::Zc>(&mut rep, nk, nv, alpha, threads, &caps)),
            "big" => mc::with_n!(n, run_bfs::<u8, Big>(&mut rep, nk, nv, alpha, threads, &caps)),
            "zst" => mc::with_n!(n, run_bfs::<(), ()>(&mut rep, nk, nv, alpha, threads, &caps)),
            "aligned" => mc::with_n!(n, run_bfs::<u8, mc::payload::Al>(&mut rep, nk, nv, alpha, threads, &caps)),
            "strbig" => mc::with_n!(n, run_bfs::<String, Big>(&mut rep, nk, nv, alpha, threads, &caps)),
            _ => mc::with_n!(n, run_bfs::<Kx, Vx>(&mut rep, nk, nv, alpha, threads, &caps)),
        }
    }
    std::process::exit(rep.finish(args.get("out")));
}
