//! panic_mc (C04): fault enumeration over the explored states. For every distinct state,
//! every operation that calls user code and every position among the user callbacks the
//! operation makes, one run with a panic injected at exactly that callback; afterwards the
//! ledger, the well-formedness of every surviving container and its continued usability are
//! judged. Leaks are tolerated, nothing else.

use mc::bfs::{bfs, par_states, Caps};
use mc::ctx::*;
use mc::json::J;
use mc::mapsys::{applicable, exec_real, flush_ledger, prepare, Alpha, MapSys, Side};
use mc::payload::{self as pl, Kx, ValT, Vx, CB_NAMES};
use mc::survivor::*;
use micromap::{Map, Set};
use std::panic::{catch_unwind, AssertUnwindSafe};

/// The property the sweep reports under: C04, or - when the engine is run for C18 alone - C18, and then only the
/// unsafe fast paths (`insert_unchecked`, `get_disjoint_unchecked_mut`, inside their contracts) are swept: within
/// its precondition a fast path must uphold every other guarantee, exception safety included.
static PMV: std::sync::atomic::AtomicU32 = std::sync::atomic::AtomicU32::new(C04);
fn pm() -> PMask {
    PMV.load(std::sync::atomic::Ordering::Relaxed)
}

/// Extra scenarios that are not part of the Map BFS alphabet.
#[derive(Clone, Copy, Debug, PartialEq, Eq)]
enum XOp {
    Clone,
    CloneSet,
    EqSame,
    EqPermuted,
    DropMap,
    IntoIter { take: u8 },
    IntoKeys { take: u8 },
    IntoValues { take: u8 },
    /// from_iter / From<[_;N]> / extend over the state's own entries plus `extra` more items
    FromIter { dup: bool, extra: u8 },
    SetExtend { dup: bool, extra: u8 },
    SetFromIter { dup: bool, extra: u8 },
    SetSub { other_mask: u8 },
    SetInsert { k: u8 },
    SetReplace { k: u8 },
    SetRemove { k: u8 },
    SetTake { k: u8 },
    SetRetain { keep: u8 },
    SetClear,
    SetDrop,
    SetDrain { take: u8 },
    SetIntoIter { take: u8 },
    SetAlgebra { other_mask: u8, which: u8 },
    SetPred { other_mask: u8, which: u8 },
    SetEq { other_mask: u8 },
    /// an iterator driven by internal iteration (for_each, all, fold, last, nth, collect, count,
    /// map, peekable) whose closure is a user callback. iter: 0 into_iter 1 into_keys
    /// 2 into_values 3 drain 4 iter_mut 5 iter 6 values_mut 7 Set::into_iter 8 Set::drain 9 Set::iter
    Driven { iter: u8, how: u8 },
    /// `Map::from([(K, V); N])` / `Set::from([T; N])` of the idx-th key sequence of length N over
    /// the universe (every repetition pattern). Independent of the state: swept from the empty state only.
    FromArray { idx: u16 },
    SetFromArray { idx: u16 },
    /// `dst.clone_from(&src)`, dst = the state; src: 0 the same entries in reversed slot order, 1 rotated
    /// by one slot, 2 the first half only (shorter), 3 the state plus one more key (longer, if it fits),
    /// 4 empty. (Equal length with another slot order is the case an in-place overwrite gets wrong.)
    CloneFrom { src: u8 },
    SetCloneFrom { src: u8 },
    /// `get_disjoint_mut` with the idx-th key tuple of length 2 or 3 over the universe (repeats included): a
    /// comparison panics inside the overlap check or the scan; by key (`form` 0), by the borrowed form (1), or
    /// through `get_disjoint_unchecked_mut` (2; only tuples of pairwise different keys - its contract)
    Disjoint { j: u8, idx: u16, form: u8 },
}
const N_HOW: u8 = 9;

/// Drive `it` to the end through one of std's internal-iteration paths; every closure call is a
/// fuse position and hands the item to `keep`.
fn drive<I: Iterator>(mut it: I, how: u8, keep: &mut dyn FnMut(I::Item)) {
    let mut k = |x: I::Item| {
        pl::tick(pl::Cb::Closure);
        keep(x)
    };
    match how {
        0 => it.for_each(&mut k),
        1 => {
            let _ = it.all(|x| {
                k(x);
                true
            });
        }
        2 => {
            let _ = it.fold(0usize, |a, x| {
                k(x);
                a + 1
            });
        }
        3 => {
            if let Some(x) = it.last() {
                k(x)
            }
        }
        4 => {
            if let Some(x) = it.nth(1) {
                k(x)
            }
            it.for_each(&mut k)
        }
        5 => {
            let v: Vec<I::Item> = it.collect();
            v.into_iter().for_each(&mut k)
        }
        6 => {
            it.by_ref().take(1).for_each(&mut k);
            let _ = it.count();
        }
        7 => {
            let _ = it.map(&mut k).count();
        }
        _ => {
            let mut p = it.peekable();
            let _ = p.peek();
            p.for_each(&mut k)
        }
    }
}

fn xops(n: usize, nk: u8) -> Vec<XOp> {
    let mut v = vec![XOp::Clone, XOp::CloneSet, XOp::EqSame, XOp::EqPermuted, XOp::DropMap, XOp::SetClear, XOp::SetDrop];
    for take in 0..=(n as u8) {
        v.push(XOp::IntoIter { take });
        v.push(XOp::IntoKeys { take });
        v.push(XOp::IntoValues { take });
        v.push(XOp::SetDrain { take });
        v.push(XOp::SetIntoIter { take });
    }
    for dup in [false, true] {
        for extra in 0..=2u8 {
            v.push(XOp::FromIter { dup, extra });
            v.push(XOp::SetExtend { dup, extra });
            v.push(XOp::SetFromIter { dup, extra });
        }
    }
    for k in 0..nk {
        v.push(XOp::SetInsert { k });
        v.push(XOp::SetReplace { k });
        v.push(XOp::SetRemove { k });
        v.push(XOp::SetTake { k });
    }
    for iter in 0..10u8 {
        for how in 0..N_HOW {
            v.push(XOp::Driven { iter, how });
        }
    }
    for j in 2..=3u8 {
        for idx in 0..(nk as u16).pow(j as u32) {
            for form in 0..3u8 {
                v.push(XOp::Disjoint { j, idx, form });
            }
        }
    }
    for src in 0..5u8 {
        v.push(XOp::CloneFrom { src });
        v.push(XOp::SetCloneFrom { src });
    }
    for idx in 0..(nk as usize).pow(n as u32).min(4096) {
        v.push(XOp::FromArray { idx: idx as u16 });
        v.push(XOp::SetFromArray { idx: idx as u16 });
    }
    for mask in 0..(1u16 << nk) {
        let mask = mask as u8;
        v.push(XOp::SetRetain { keep: mask });
        v.push(XOp::SetSub { other_mask: mask });
        v.push(XOp::SetEq { other_mask: mask });
        for which in 0..4 {
            v.push(XOp::SetAlgebra { other_mask: mask, which });
        }
        for which in 0..3 {
            v.push(XOp::SetPred { other_mask: mask, which });
        }
    }
    v
}

struct Tally {
    runs: u64,
    fired: u64,
    not_injectable: u64,
}

/// One fuse sweep: `run(at)` must build everything afresh, arm the fuse at `at`, execute, judge
/// and return (callbacks counted, what fired).
fn sweep(cx: &mut Ctx, t: &mut Tally, label: &str, mut run: impl FnMut(u32, &mut Ctx) -> (u32, Option<(pl::Cb, u32)>, Vec<pl::Cb>)) {
    // Dry run (no panic injected): counts the callbacks, and is the differential baseline. If the
    // operation already misbehaves without any panic, that is another property's business (C01,
    // C02, ...): C04 only speaks about what a panic in user code does, so the sweep is skipped.
    cx.here.extra = "fuse=none (dry run)".to_string();
    let mut base = Ctx::new(cx.enabled);
    base.here = cx.here.clone();
    let (c, _, kinds) = run(u32::MAX, &mut base);
    t.runs += 1;
    cx.evaluations += 1;
    for i in 0..NPROPS {
        cx.checks[i] += base.checks[i];
    }
    if base.total_violations() > 0 {
        cx.class(&format!("{label}:misbehaves without any panic (not judged under C04)"));
        cx.here.extra.clear();
        return;
    }
    for at in 0..c {
        cx.here.extra = format!("panic injected at user callback #{at} ({}) of {c}", kinds.get(at as usize).map(|k| CB_NAMES[*k as usize]).unwrap_or("?"));
        let (_, fired, _) = run(at, cx);
        t.runs += 1;
        cx.evaluations += 1;
        match fired {
            Some((cb, _)) => {
                t.fired += 1;
                cx.nontrivial += 1;
                if at + 1 == c {
                    let (hist, op) = (cx.here.path.clone(), cx.here.op.clone());
                    cx.sample(|| {
                        J::obj()
                            .set("history", hist)
                            .set("op", op)
                            .set("user_callbacks_in_op", c)
                            .set("panic_injected_at", format!("callback #{at} ({})", CB_NAMES[cb as usize]))
                            .set("judged", "ledger during/after unwinding; survivors well-formed, exercised, dropped")
                    });
                }
                cx.class(&format!("{label}:panic_in_{}", CB_NAMES[cb as usize]));
            }
            None => {
                t.not_injectable += 1;
                cx.class(&format!("{label}:position_not_injectable(in unwinding)"));
            }
        }
    }
    cx.here.extra.clear();
}

fn set_of_state<const N: usize>(keys: &[(u8, u8)]) -> Box<Canary<Set<Kx, N>>> {
    let mut bx = Canary::boxed(Set::<Kx, N>::new());
    for (k, t) in keys {
        bx.c.insert(Kx::new(*k, *t));
    }
    bx
}

fn set_from_mask<const M: usize>(mask: u8, nk: u8, tag: u8) -> Set<Kx, M> {
    let mut s = Set::<Kx, M>::new();
    for k in 0..nk {
        if mask & (1 << k) != 0 {
            s.insert(Kx::new(k, tag));
        }
    }
    s
}

fn sweep_state<const N: usize>(
    gsys: &MapSys<Kx, Vx, N>,
    full: &MapSys<Kx, Vx, N>,
    xs: &[XOp],
    path: &[u32],
    cx: &mut Ctx,
    t: &mut Tally,
) {
    let nk = full.nk;
    let nv = full.nv;
    // group A: every operation of the Map alphabet
    for (oi, op) in full.ops.iter().enumerate() {
        {
            let mut q = Ctx::new(0);
            q.quiet = true;
            let b = gsys.build(path, &mut q);
            if !applicable(&b.model, op) {
                continue;
            }
        }
        if pm() == C18 && !matches!(op, mc::mapsys::MapOp::InsertUnchecked { .. }) {
            continue;
        }
        cx.here.op_idx = oi as u32;
        cx.here.op = op.to_string();
        crumb(&cx.here.op);
        let label = mc::mapsys::opclass(op);
        sweep(cx, t, &label, |at, cx| {
            let mut b = gsys.build(path, cx);
            let mut a = prepare::<Kx, Vx>(op, nv);
            let mut side: Side<Kx, Vx> = Side::default();
            pl::take_violations();
            pl::arm(at);
            let res = {
                let m = &mut b.bx.c;
                catch_unwind(AssertUnwindSafe(|| exec_real(m, op, &mut a, &mut side, nv)))
            };
            let (ticks, fired) = pl::disarm();
            let kinds = pl::tick_kinds();
            flush_ledger(cx, pm(), "during the call / the unwinding");
            drop(a);
            drop(side);
            flush_ledger(cx, pm(), "dropping the arguments and results the caller still holds");
            let _ = res;
            let built = b;
            exercise_and_drop_map(built.bx, nk, cx, pm(), true);
            drop(built.probes);
            (ticks, fired, kinds)
        });
    }
    // group B: clone, ==, bulk construction, consuming iterators, drop, and the Set API
    for (xi, x) in xs.iter().enumerate() {
        if matches!(x, XOp::FromArray { .. } | XOp::SetFromArray { .. }) && !path.is_empty() {
            continue;
        }
        if pm() == C18 && !matches!(x, XOp::Disjoint { form: 2, .. }) {
            continue;
        }
        cx.here.op_idx = 100_000 + xi as u32;
        cx.here.op = format!("{x:?}");
        crumb(&cx.here.op);
        let label = format!("{x:?}");
        let label = label.split([' ', '{']).next().unwrap().to_string();
        sweep(cx, t, &label, |at, cx| run_x::<N>(gsys, path, *x, at, nk, cx));
    }
}

fn run_x<const N: usize>(gsys: &MapSys<Kx, Vx, N>, path: &[u32], x: XOp, at: u32, nk: u8, cx: &mut Ctx) -> (u32, Option<(pl::Cb, u32)>, Vec<pl::Cb>) {
    let b = gsys.build(path, cx);
    let entries: Vec<(u8, u8, u8)> = b.model.entries().iter().map(|(k, v)| (k.k, k.tag, v.v)).collect();
    let in_order: Vec<(u8, u8, u8)> = b.bx.c.iter().map(|(k, v)| (k.k, k.tag, v.v)).collect();
    let keys: Vec<(u8, u8)> = in_order.iter().map(|e| (e.0, e.1)).collect();
    let mut mapbx = Some(b.bx);
    let probes = b.probes;
    let mut setbx: Option<Box<Canary<Set<Kx, N>>>> = None;
    let mut other_map: Option<Box<Canary<Map<Kx, Vx, N>>>> = None;
    pl::take_violations();
    // items for bulk scenarios: the state's entries (optionally each twice) plus extra fresh keys
    let bulk_items = |dup: bool, extra: u8| -> Vec<(u8, u8, u8)> {
        let mut it = in_order.clone();
        if dup {
            it.extend(in_order.iter().map(|e| (e.0, 1 - e.1, e.2)));
        }
        let mut added = 0;
        for k in 0..nk {
            if added < extra && !entries.iter().any(|e| e.0 == k) {
                it.push((k, 0, 0));
                added += 1;
            }
        }
        it
    };
    let (ticks, fired);
    match x {
        XOp::Clone => {
            let m = &mapbx.as_ref().unwrap().c;
            pl::arm(at);
            let r = catch_unwind(AssertUnwindSafe(|| m.clone()));
            (ticks, fired) = pl::disarm();
            flush_ledger(cx, pm(), "during clone / the unwinding");
            if let Ok(c) = r {
                exercise_and_drop_map(Canary::boxed(c), nk, cx, pm(), true);
            }
        }
        XOp::CloneSet => {
            mapbx = None;
            let s = set_of_state::<N>(&keys);
            pl::arm(at);
            let r = catch_unwind(AssertUnwindSafe(|| s.c.clone()));
            (ticks, fired) = pl::disarm();
            flush_ledger(cx, pm(), "during Set::clone / the unwinding");
            if let Ok(c) = r {
                exercise_and_drop_set(Canary::boxed(c), nk, cx, pm(), true);
            }
            setbx = Some(s);
        }
        XOp::EqSame | XOp::EqPermuted => {
            let mut o = Canary::boxed(Map::<Kx, Vx, N>::new());
            let mut src = in_order.clone();
            if x == XOp::EqPermuted {
                src.reverse();
            }
            for (k, t_, v) in &src {
                o.c.insert(Kx::new(*k, *t_), Vx::new(*v));
            }
            let m = &mapbx.as_ref().unwrap().c;
            pl::arm(at);
            let _ = catch_unwind(AssertUnwindSafe(|| m == &o.c));
            (ticks, fired) = pl::disarm();
            other_map = Some(o);
        }
        XOp::Disjoint { j, idx, form } => {
            let ks: Vec<u8> = (0..j).map(|p| ((idx / (nk as u16).pow(p as u32)) % nk as u16) as u8).collect();
            let keys: Vec<Kx> = ks.iter().map(|k| Kx::new(*k, 1)).collect();
            let m = &mut mapbx.as_mut().unwrap().c;
            let distinct = (0..ks.len()).all(|a| (0..a).all(|b| ks[a] != ks[b]));
            if form == 2 && !distinct {
                drop(keys);
                return (0, None, Vec::new());
            }
            pl::arm(at);
            let _ = catch_unwind(AssertUnwindSafe(|| {
                // writes through whatever comes back: the references must be to live values of the map
                macro_rules! go {
                    ($($i:expr),*) => {{
                        if form == 2 {
                            // SAFETY: the requested keys are pairwise different (checked above): the documented contract
                            for r in unsafe { m.get_disjoint_unchecked_mut([$(&keys[$i]),*]) }.into_iter().flatten() {
                                r.set(0);
                            }
                        } else if form == 0 {
                            for r in m.get_disjoint_mut([$(&keys[$i]),*]).into_iter().flatten() {
                                r.set(0);
                            }
                        } else {
                            for r in m.get_disjoint_mut([$(&ks[$i]),*]).into_iter().flatten() {
                                r.set(0);
                            }
                        }
                    }};
                }
                if j == 2 {
                    go!(0, 1)
                } else {
                    go!(0, 1, 2)
                }
            }));
            (ticks, fired) = pl::disarm();
            drop(keys);
        }
        XOp::DropMap => {
            let m = mapbx.take().unwrap();
            pl::arm(at);
            let _ = catch_unwind(AssertUnwindSafe(move || drop(m)));
            (ticks, fired) = pl::disarm();
        }
        XOp::IntoIter { take } | XOp::IntoKeys { take } | XOp::IntoValues { take } => {
            let m = *mapbx.take().unwrap();
            let m = m.c;
            let mut held_k: Vec<Kx> = Vec::new();
            let mut held_v: Vec<Vx> = Vec::new();
            pl::arm(at);
            let _ = catch_unwind(AssertUnwindSafe(|| match x {
                XOp::IntoIter { .. } => {
                    let mut it = m.into_iter();
                    for _ in 0..take {
                        if let Some((k, v)) = it.next() {
                            held_k.push(k);
                            held_v.push(v);
                        }
                    }
                    drop(it);
                }
                XOp::IntoKeys { .. } => {
                    let mut it = m.into_keys();
                    for _ in 0..take {
                        if let Some(k) = it.next() {
                            held_k.push(k);
                        }
                    }
                    drop(it);
                }
                _ => {
                    let mut it = m.into_values();
                    for _ in 0..take {
                        if let Some(v) = it.next() {
                            held_v.push(v);
                        }
                    }
                    drop(it);
                }
            }));
            (ticks, fired) = pl::disarm();
            flush_ledger(cx, pm(), "during the consuming iteration / the unwinding");
            drop(held_k);
            drop(held_v);
        }
        XOp::FromIter { dup, extra } => {
            mapbx = None;
            let items: Vec<(Kx, Vx)> = bulk_items(dup, extra).iter().map(|(k, t_, v)| (Kx::new(*k, *t_), Vx::new(*v))).collect();
            let (src, _calls) = Src::new(items);
            pl::arm(at);
            let r = catch_unwind(AssertUnwindSafe(|| src.collect::<Map<Kx, Vx, N>>()));
            (ticks, fired) = pl::disarm();
            flush_ledger(cx, pm(), "during collect / the unwinding");
            if let Ok(c) = r {
                exercise_and_drop_map(Canary::boxed(c), nk, cx, pm(), true);
            }
        }
        XOp::SetFromIter { dup, extra } => {
            mapbx = None;
            let items: Vec<Kx> = bulk_items(dup, extra).iter().map(|(k, t_, _)| Kx::new(*k, *t_)).collect();
            let (src, _calls) = Src::new(items);
            pl::arm(at);
            let r = catch_unwind(AssertUnwindSafe(|| src.collect::<Set<Kx, N>>()));
            (ticks, fired) = pl::disarm();
            flush_ledger(cx, pm(), "during collect / the unwinding");
            if let Ok(c) = r {
                exercise_and_drop_set(Canary::boxed(c), nk, cx, pm(), true);
            }
        }
        XOp::SetExtend { dup, extra } => {
            mapbx = None;
            // extend a set holding the first half of the state with the bulk items
            let half = &keys[..keys.len() / 2];
            let mut s = set_of_state::<N>(half);
            let items: Vec<Kx> = bulk_items(dup, extra).iter().map(|(k, t_, _)| Kx::new(*k, 1 - *t_)).collect();
            let (src, _calls) = Src::new(items);
            pl::arm(at);
            let _ = catch_unwind(AssertUnwindSafe(|| s.c.extend(src)));
            (ticks, fired) = pl::disarm();
            setbx = Some(s);
        }
        XOp::SetSub { other_mask } => {
            mapbx = None;
            let s = set_of_state::<N>(&keys);
            let o: Set<Kx, 6> = set_from_mask(other_mask, nk, 1);
            pl::arm(at);
            let r = catch_unwind(AssertUnwindSafe(|| &s.c - &o));
            (ticks, fired) = pl::disarm();
            flush_ledger(cx, pm(), "during '-' / the unwinding");
            if let Ok(c) = r {
                exercise_and_drop_set(Canary::boxed(c), nk, cx, pm(), true);
            }
            drop(o);
            setbx = Some(s);
        }
        XOp::SetInsert { k } | XOp::SetReplace { k } | XOp::SetRemove { k } | XOp::SetTake { k } => {
            mapbx = None;
            let mut s = set_of_state::<N>(&keys);
            let arg = Kx::new(k, 1);
            let mut held: Vec<Kx> = Vec::new();
            pl::arm(at);
            let _ = catch_unwind(AssertUnwindSafe(|| match x {
                XOp::SetInsert { .. } => {
                    s.c.insert(arg);
                }
                XOp::SetReplace { .. } => {
                    if let Some(o) = s.c.replace(arg) {
                        held.push(o);
                    }
                }
                XOp::SetRemove { .. } => {
                    s.c.remove::<Kx>(&arg);
                }
                _ => {
                    if let Some(o) = s.c.take::<u8>(&k) {
                        held.push(o);
                    }
                }
            }));
            (ticks, fired) = pl::disarm();
            flush_ledger(cx, pm(), "during the call / the unwinding");
            drop(held);
            setbx = Some(s);
        }
        XOp::SetRetain { keep } => {
            mapbx = None;
            let mut s = set_of_state::<N>(&keys);
            pl::arm(at);
            let _ = catch_unwind(AssertUnwindSafe(|| {
                s.c.retain(|k| {
                    pl::tick(pl::Cb::Pred);
                    keep & (1 << k.k) != 0
                })
            }));
            (ticks, fired) = pl::disarm();
            setbx = Some(s);
        }
        XOp::SetClear => {
            mapbx = None;
            let mut s = set_of_state::<N>(&keys);
            pl::arm(at);
            let _ = catch_unwind(AssertUnwindSafe(|| s.c.clear()));
            (ticks, fired) = pl::disarm();
            setbx = Some(s);
        }
        XOp::SetDrop => {
            mapbx = None;
            let s = set_of_state::<N>(&keys);
            pl::arm(at);
            let _ = catch_unwind(AssertUnwindSafe(move || drop(s)));
            (ticks, fired) = pl::disarm();
        }
        XOp::SetDrain { take } => {
            mapbx = None;
            let mut s = set_of_state::<N>(&keys);
            let mut held: Vec<Kx> = Vec::new();
            pl::arm(at);
            let _ = catch_unwind(AssertUnwindSafe(|| {
                let mut d = s.c.drain();
                for _ in 0..take {
                    if let Some(k) = d.next() {
                        held.push(k);
                    }
                }
                drop(d);
            }));
            (ticks, fired) = pl::disarm();
            flush_ledger(cx, pm(), "during drain / the unwinding");
            drop(held);
            setbx = Some(s);
        }
        XOp::SetIntoIter { take } => {
            mapbx = None;
            let s = *set_of_state::<N>(&keys);
            let s = s.c;
            let mut held: Vec<Kx> = Vec::new();
            pl::arm(at);
            let _ = catch_unwind(AssertUnwindSafe(|| {
                let mut it = s.into_iter();
                for _ in 0..take {
                    if let Some(k) = it.next() {
                        held.push(k);
                    }
                }
                drop(it);
            }));
            (ticks, fired) = pl::disarm();
            flush_ledger(cx, pm(), "during Set::into_iter / the unwinding");
            drop(held);
        }
        XOp::SetAlgebra { other_mask, which } => {
            mapbx = None;
            let s = set_of_state::<N>(&keys);
            let o: Set<Kx, 6> = set_from_mask(other_mask, nk, 1);
            pl::arm(at);
            let _ = catch_unwind(AssertUnwindSafe(|| match which {
                0 => s.c.union(&o).count(),
                1 => s.c.intersection(&o).count(),
                2 => s.c.difference(&o).count(),
                _ => s.c.symmetric_difference(&o).count(),
            }));
            (ticks, fired) = pl::disarm();
            drop(o);
            setbx = Some(s);
        }
        XOp::SetPred { other_mask, which } => {
            mapbx = None;
            let s = set_of_state::<N>(&keys);
            let o: Set<Kx, 6> = set_from_mask(other_mask, nk, 1);
            pl::arm(at);
            let _ = catch_unwind(AssertUnwindSafe(|| match which {
                0 => s.c.is_subset(&o),
                1 => s.c.is_superset(&o),
                _ => s.c.is_disjoint(&o),
            }));
            (ticks, fired) = pl::disarm();
            drop(o);
            setbx = Some(s);
        }
        XOp::Driven { iter, how } => {
            let mut hk: Vec<Kx> = Vec::new();
            let mut hv: Vec<Vx> = Vec::new();
            if iter >= 7 {
                mapbx = None;
                let mut s = set_of_state::<N>(&keys);
                pl::arm(at);
                let r = catch_unwind(AssertUnwindSafe(|| match iter {
                    7 => {
                        let owned = std::mem::replace(&mut s.c, Set::new());
                        drive(owned.into_iter(), how, &mut |k| hk.push(k))
                    }
                    8 => drive(s.c.drain(), how, &mut |k| hk.push(k)),
                    _ => drive(s.c.iter(), how, &mut |k| {
                        k.desc();
                    }),
                }));
                (ticks, fired) = pl::disarm();
                let _ = r;
                setbx = Some(s);
            } else {
                let bx = mapbx.as_mut().unwrap();
                pl::arm(at);
                let r = catch_unwind(AssertUnwindSafe(|| match iter {
                    0 => {
                        let owned = std::mem::replace(&mut bx.c, Map::new());
                        drive(owned.into_iter(), how, &mut |(k, v)| {
                            hk.push(k);
                            hv.push(v)
                        })
                    }
                    1 => {
                        let owned = std::mem::replace(&mut bx.c, Map::new());
                        drive(owned.into_keys(), how, &mut |k| hk.push(k))
                    }
                    2 => {
                        let owned = std::mem::replace(&mut bx.c, Map::new());
                        drive(owned.into_values(), how, &mut |v| hv.push(v))
                    }
                    3 => drive(bx.c.drain(), how, &mut |(k, v)| {
                        hk.push(k);
                        hv.push(v)
                    }),
                    4 => drive(bx.c.iter_mut(), how, &mut |(k, v)| {
                        k.desc();
                        v.desc();
                    }),
                    5 => drive(bx.c.iter(), how, &mut |(k, v)| {
                        k.desc();
                        v.desc();
                    }),
                    _ => drive(bx.c.values_mut(), how, &mut |v| {
                        v.desc();
                    }),
                }));
                (ticks, fired) = pl::disarm();
                let _ = r;
            }
            flush_ledger(cx, pm(), "during the driven iteration / the unwinding");
            drop(hk);
            drop(hv);
        }
        XOp::CloneFrom { src } | XOp::SetCloneFrom { src } => {
            let mut items: Vec<(u8, u8, u8)> = in_order.clone();
            match src {
                0 => items.reverse(),
                1 => {
                    if !items.is_empty() {
                        items.rotate_left(1);
                    }
                }
                2 => items.truncate(items.len() / 2),
                3 => {
                    if items.len() < N {
                        if let Some(k) = (0..nk).find(|k| !items.iter().any(|e| e.0 == *k)) {
                            items.insert(0, (k, 1, 0));
                        }
                    }
                }
                _ => items.clear(),
            }
            if let XOp::CloneFrom { .. } = x {
                let mut o = Canary::boxed(Map::<Kx, Vx, N>::new());
                for (k, t_, v) in &items {
                    o.c.insert(Kx::new(*k, 1 - *t_), Vx::new(*v));
                }
                let m = &mut mapbx.as_mut().unwrap().c;
                pl::arm(at);
                let _ = catch_unwind(AssertUnwindSafe(|| m.clone_from(&o.c)));
                (ticks, fired) = pl::disarm();
                flush_ledger(cx, pm(), "during clone_from / the unwinding");
                other_map = Some(o);
            } else {
                mapbx = None;
                let mut d = set_of_state::<N>(&keys);
                let ks: Vec<(u8, u8)> = items.iter().map(|e| (e.0, 1 - e.1)).collect();
                let o = set_of_state::<N>(&ks);
                pl::arm(at);
                let _ = catch_unwind(AssertUnwindSafe(|| d.c.clone_from(&o.c)));
                (ticks, fired) = pl::disarm();
                flush_ledger(cx, pm(), "during Set::clone_from / the unwinding");
                exercise_and_drop_set(o, nk, cx, pm(), true);
                setbx = Some(d);
            }
        }
        XOp::FromArray { idx } | XOp::SetFromArray { idx } => {
            mapbx = None;
            let mut i = idx as usize;
            let seq: Vec<u8> = (0..N)
                .map(|_| {
                    let k = (i % nk as usize) as u8;
                    i /= nk as usize;
                    k
                })
                .collect();
            if let XOp::FromArray { .. } = x {
                let mut items: Vec<(Kx, Vx)> = seq.iter().enumerate().map(|(p, k)| (Kx::new(*k, (p % 2) as u8), Vx::new(0))).collect();
                let mut it = items.drain(..);
                let arr: [(Kx, Vx); N] = std::array::from_fn(|_| it.next().unwrap());
                drop(it);
                pl::arm(at);
                let r = catch_unwind(AssertUnwindSafe(|| Map::<Kx, Vx, N>::from(arr)));
                (ticks, fired) = pl::disarm();
                flush_ledger(cx, pm(), "during Map::from(array) / the unwinding");
                if let Ok(c) = r {
                    exercise_and_drop_map(Canary::boxed(c), nk, cx, pm(), true);
                }
            } else {
                let mut items: Vec<Kx> = seq.iter().enumerate().map(|(p, k)| Kx::new(*k, (p % 2) as u8)).collect();
                let mut it = items.drain(..);
                let arr: [Kx; N] = std::array::from_fn(|_| it.next().unwrap());
                drop(it);
                pl::arm(at);
                let r = catch_unwind(AssertUnwindSafe(|| Set::<Kx, N>::from(arr)));
                (ticks, fired) = pl::disarm();
                flush_ledger(cx, pm(), "during Set::from(array) / the unwinding");
                if let Ok(c) = r {
                    exercise_and_drop_set(Canary::boxed(c), nk, cx, pm(), true);
                }
            }
        }
        XOp::SetEq { other_mask } => {
            mapbx = None;
            let s = set_of_state::<N>(&keys);
            let o: Set<Kx, 6> = set_from_mask(other_mask, nk, 1);
            pl::arm(at);
            let _ = catch_unwind(AssertUnwindSafe(|| s.c == o));
            (ticks, fired) = pl::disarm();
            drop(o);
            setbx = Some(s);
        }
    }
    let kinds = pl::tick_kinds();
    flush_ledger(cx, pm(), "during the call / the unwinding");
    if let Some(m) = mapbx {
        exercise_and_drop_map(m, nk, cx, pm(), true);
    }
    if let Some(m) = other_map {
        exercise_and_drop_map(m, nk, cx, pm(), true);
    }
    if let Some(s) = setbx {
        exercise_and_drop_set(s, nk, cx, pm(), true);
    }
    drop(probes);
    flush_ledger(cx, pm(), "at the end of the run");
    (ticks, fired, kinds)
}

fn run_n<const N: usize>(rep: &mut EngineReport, nk: u8, nv: u8, threads: usize, replay: Option<(Vec<u32>, u32, Option<u32>)>) -> i32 {
    let gsys = MapSys::<Kx, Vx, N>::new(nk, nv, Alpha::Gen);
    let full = MapSys::<Kx, Vx, N>::new(nk, nv, Alpha::Full);
    let xs = xops(N, gsys.nk);
    let config = format!("panic sweep on Map/Set<Kx,..,{N}> keys={} tags=2 values={}", gsys.nk, gsys.nv);
    if let Some((path, op_idx, at)) = replay {
        // re-execute one recorded (history, op, fuse position) twice
        let mut outs = Vec::new();
        for _ in 0..2 {
            let mut cx = Ctx::new(rep.cx.enabled);
            cx.here.config = config.clone();
            cx.here.path_idx = path.clone();
            cx.here.path = path.iter().map(|i| gsys.ops[*i as usize].to_string()).collect();
            cx.here.op_idx = op_idx;
            let at = at.unwrap_or(u32::MAX);
            if op_idx >= 100_000 {
                let x = xs[(op_idx - 100_000) as usize];
                cx.here.op = format!("{x:?}");
                cx.here.extra = format!("panic injected at user callback #{at}");
                run_x::<N>(&gsys, &path, x, at, gsys.nk, &mut cx);
            } else {
                let only = [full.ops[op_idx as usize]];
                let mut one = MapSys::<Kx, Vx, N>::new(nk, nv, Alpha::Full);
                one.ops = only.to_vec();
                let mut t = Tally { runs: 0, fired: 0, not_injectable: 0 };
                // run the whole sweep of that op, keep only the requested position's verdicts
                let mut all = Ctx::new(rep.cx.enabled);
                all.here = cx.here.clone();
                sweep_state::<N>(&gsys, &one, &[], &path, &mut all, &mut t);
                cx.merge(all);
            }
            let v: Vec<J> = cx.best.iter().flatten().map(|b| b.to_json()).collect();
            outs.push(v);
        }
        let same = outs[0].len() == outs[1].len();
        let j = J::obj()
            .set("config", config)
            .set("deterministic", same)
            .set("violations", J::Arr(outs.remove(0)));
        println!("{}", j.dump());
        let n = j.get("violations").and_then(|v| v.as_arr()).map(|a| a.len()).unwrap_or(0);
        return if !same { 2 } else if n > 0 { 1 } else { 0 };
    }
    let mut cx = rep.cx.fork();
    cx.here.config = config.clone();
    let t0 = std::time::Instant::now();
    let mut q = Ctx::new(0);
    let out = bfs(&gsys, threads, &Caps::default(), &mut q);
    let tallies = std::sync::Mutex::new((0u64, 0u64, 0u64));
    par_states(out.states.len(), threads, &mut cx, |s, lcx| {
        let path = out.path_of(s);
        lcx.here.path_idx = path.clone();
        lcx.here.path = path.iter().map(|i| gsys.ops[*i as usize].to_string()).collect();
        let mut t = Tally { runs: 0, fired: 0, not_injectable: 0 };
        sweep_state::<N>(&gsys, &full, &xs, &path, lcx, &mut t);
        let mut g = tallies.lock().unwrap();
        g.0 += t.runs;
        g.1 += t.fired;
        g.2 += t.not_injectable;
    });
    let (runs, fired, noinj) = *tallies.lock().unwrap();
    rep.configs.push(
        J::obj()
            .set("config", config)
            .set("states", out.states.len())
            .set("operations_per_state", full.ops.len() + xs.len())
            .set("runs", runs)
            .set("panics_injected", fired)
            .set("positions_not_injectable", noinj)
            .set("wall_s", t0.elapsed().as_secs_f64()),
    );
    rep.states += out.states.len() as u64;
    rep.transitions += runs;
    rep.cx.merge(cx);
    0
}

fn main() {
    let args = Args::from_env();
    silence_panics();
    install_crash_handler(args.get("crumb"));
    let mut rep = EngineReport::new("panic_mc", args.props());
    if args.props() & C04 == 0 && args.props() & C18 != 0 {
        PMV.store(C18, std::sync::atomic::Ordering::Relaxed);
    }
    let ns = args.list_usize("n", &[1, 2, 3]);
    let nv = args.usize("v", 1) as u8;
    let threads = args.threads();
    if let Some(p) = args.get("replay-path") {
        let path = mc::bfs::parse_idx_list(p);
        let op = args.get("replay-op").and_then(|x| x.parse().ok()).unwrap_or(0);
        let at = args
            .get("replay-extra")
            .and_then(|e| e.split('#').nth(1).map(|r| r.chars().take_while(|c| c.is_ascii_digit()).collect::<String>()))
            .and_then(|d| d.parse::<u32>().ok());
        let n = ns[0];
        let nk = (n + 1) as u8;
        let code = mc::with_n!(n, run_n::<>(&mut rep, nk, nv, threads, Some((path, op, at))));
        std::process::exit(code);
    }
    for n in ns {
        let nk = (n + 1) as u8;
        mc::with_n!(n, run_n::<>(&mut rep, nk, nv, threads, None));
    }
    std::process::exit(rep.finish(args.get("out")));
}
