//! clone_mc (C15): every distinct state -> clone(); the clone is made with exactly one clone
//! per stored key and value, holds equal entries with fresh identities, compares equal; then
//! every single operation of the mutating alphabet on the clone (original observed) and on the
//! original (clone observed); dropping either leaves the other intact. Run on the ledger
//! payloads and on payloads without drop glue (observable Clone only).

use mc::bfs::{bfs, par_states, Caps};
use mc::ctx::*;
use mc::json::J;
use mc::mapsys::{applicable, entries_of, flush_ledger, invariants, set_also_live, Alpha, MapSys, RefMap};
use mc::payload::{self as pl, KeyT, Kn, Kx, ValT, Vn, Vx, KD, VD};
use micromap::{Map, Set};

const PM: PMask = C15;

/// Clone the built container and judge the clone itself. Returns the clone and its model.
fn clone_and_judge<K: KeyT, V: ValT, const N: usize>(orig: &Map<K, V, N>, cx: &mut Ctx) -> Option<(Box<Canary<Map<K, V, N>>>, RefMap)> {
    let before = entries_of(orig);
    let c0 = pl::counts();
    let first_new = pl::next_id();
    let c = Canary::boxed(orig.clone());
    let c1 = pl::counts();
    let after = entries_of(orig);
    cx.check(PM, before == after, || format!("clone() changed the original: {before:?} -> {after:?}"));
    let got = entries_of(&c.c);
    let n = before.len();
    let clones = (c1[pl::Cb::Clone as usize] - c0[pl::Cb::Clone as usize]) as usize;
    cx.check(PM, clones == 2 * n, || format!("clone() of {n} entries made {clones} element clones, expected {}", 2 * n));
    cx.check(PM, c1[pl::Cb::Drop as usize] == c0[pl::Cb::Drop as usize], || "clone() destroyed an element".to_string());
    // same entries (k, tag, v)
    let strip = |e: &[(KD, VD)]| {
        let mut x: Vec<(u8, u8, u8)> = e.iter().map(|(k, v)| (k.k, k.tag, v.v)).collect();
        x.sort();
        x
    };
    let same = strip(&got) == strip(&before);
    cx.check(PM, same, || format!("the clone holds {got:?} but the original holds {before:?}"));
    cx.check(PM, c.c.len() == orig.len(), || format!("clone has len {} vs {}", c.c.len(), orig.len()));
    // every stored object was cloned exactly once, and the clone holds exactly those clones
    let mut ok_ids = true;
    for (k, v) in &before {
        let ko = pl::obj(k.id).unwrap();
        let vo = pl::obj(v.id).unwrap();
        cx.check(PM, ko.clones == 1 && vo.clones == 1, || {
            format!("stored key {k} was cloned {} times and its value {v} {} times", ko.clones, vo.clones)
        });
    }
    for (k, v) in &got {
        let fresh = k.id >= first_new && v.id >= first_new;
        let ko = pl::obj(k.id).map(|o| o.clone_of);
        let vo = pl::obj(v.id).map(|o| o.clone_of);
        let src = before.iter().find(|(bk, _)| Some(bk.id) == ko);
        let good = fresh && src.is_some_and(|(_, bv)| Some(bv.id) == vo);
        ok_ids &= good;
        cx.check(PM, good, || format!("clone entry {k}={v} is not a fresh clone of one original entry (clone_of {ko:?}/{vo:?})"));
    }
    cx.check(PM, c.c == *orig && *orig == c.c, || "clone != original".to_string());
    flush_ledger(cx, PM | C02, "clone()");
    if !(same && ok_ids) {
        return None;
    }
    let mut model = RefMap::new(N);
    for (k, v) in &got {
        model.m.insert(k.k, (*k, *v));
    }
    Some((c, model))
}

fn ids(e: &[(KD, VD)]) -> Vec<u32> {
    e.iter().flat_map(|(k, v)| [k.id, v.id]).collect()
}

fn per_state<K: KeyT, V: ValT, const N: usize>(gsys: &MapSys<K, V, N>, full: &MapSys<K, V, N>, path: &[u32], cx: &mut Ctx) {
    // 1. clone, judged; drop the clone first, then the original; and the other way round
    for drop_clone_first in [true, false] {
        let b = gsys.build(path, cx);
        cx.here.op = "clone".into();
        cx.evaluations += 1;
        let Some((c, _)) = clone_and_judge(&b.bx.c, cx) else { gsys.teardown(b, cx, C02); continue };
        let orig_entries = entries_of(&b.bx.c);
        let clone_entries = entries_of(&c.c);
        let mc::mapsys::Built { bx, probes, .. } = b;
        if drop_clone_first {
            drop(c);
            let still = entries_of(&bx.c);
            cx.check(PM, still == orig_entries, || "dropping the clone changed the original".to_string());
            if K::LEDGER {
                for id in ids(&orig_entries) {
                    cx.check(PM, pl::is_live(id), || format!("dropping the clone destroyed object #{id} of the original"));
                }
            }
            invariants(&bx.c, cx, PM);
            drop(bx);
        } else {
            drop(bx);
            let still = entries_of(&c.c);
            cx.check(PM, still == clone_entries, || "dropping the original changed the clone".to_string());
            if K::LEDGER {
                for id in ids(&clone_entries) {
                    cx.check(PM, pl::is_live(id), || format!("dropping the original destroyed object #{id} of the clone"));
                }
            }
            invariants(&c.c, cx, PM);
            drop(c);
        }
        drop(probes);
        flush_ledger(cx, PM | C02, "dropping both copies");
        if K::LEDGER {
            cx.check(PM | C02, pl::live_count() == 0, || format!("{} objects are still alive after both copies were dropped", pl::live_count()));
        }
    }
    // 2. independence: every operation on one copy leaves the other untouched
    for (oi, op) in full.ops.iter().enumerate() {
        // differential baseline: the same operation on a never-cloned container in the same state.
        // Whatever that run shows is the operation's own business (C01, C11, ...), not the clone's.
        let baseline = {
            let mut q = Ctx::new(0);
            q.quiet = true;
            let mut fb = gsys.build(path, &mut q);
            if !applicable(&fb.model, op) {
                continue;
            }
            let mut sub = Ctx::new(!0);
            let mut leaked = Vec::new();
            full.step(&mut fb.bx, &mut fb.model, &fb.probes, op, &mut sub, &mut leaked);
            let r = (sub.total_violations(), mc::mapsys::snapshot(&fb.bx.c));
            drop(fb);
            r
        };
        for on_clone in [true, false] {
            let mut q = Ctx::new(0);
            q.quiet = true;
            let mut b = gsys.build(path, &mut q);
            if !applicable(&b.model, op) {
                break;
            }
            let Some((mut c, mut cmodel)) = clone_and_judge(&b.bx.c, &mut q) else { break };
            cx.here.op = format!("{op} on the {}", if on_clone { "clone" } else { "original" });
            cx.here.op_idx = oi as u32;
            cx.evaluations += 1;
            cx.nontrivial += 1;
            let orig_entries = entries_of(&b.bx.c);
            let clone_entries = entries_of(&c.c);
            let mut sub = Ctx::new(!0);
            sub.here = cx.here.clone();
            let mut leaked = Vec::new();
            if on_clone {
                set_also_live(ids(&orig_entries));
                let out = full.step(&mut c, &mut cmodel, &b.probes, op, &mut sub, &mut leaked);
                let _ = out;
                let now = entries_of(&b.bx.c);
                cx.check(PM, now == orig_entries, || format!("{op} on the clone changed the original: {orig_entries:?} -> {now:?}"));
                invariants(&b.bx.c, cx, PM);
            } else {
                set_also_live(ids(&clone_entries));
                let out = full.step(&mut b.bx, &mut b.model, &b.probes, op, &mut sub, &mut leaked);
                let _ = out;
                let now = entries_of(&c.c);
                cx.check(PM, now == clone_entries, || format!("{op} on the original changed the clone: {clone_entries:?} -> {now:?}"));
                invariants(&c.c, cx, PM);
            }
            // the stepped copy must behave exactly like a never-cloned container in the same state
            let stepped = (sub.total_violations(), if on_clone { mc::mapsys::snapshot(&c.c) } else { mc::mapsys::snapshot(&b.bx.c) });
            // (a clone may lay its entries out in another order: compare the associations, not the slots)
            if (stepped.0, stepped.1.abstracted()) != (baseline.0, baseline.1.abstracted()) {
                let m = sub.best.iter().flatten().next().map(|v| v.msg.clone()).unwrap_or_default();
                cx.violate(
                    PM,
                    format!(
                        "the stepped copy behaves differently from a never-cloned container in the same state: {} vs {} judged deviations, state {} vs {}; first: {m}",
                        stepped.0,
                        baseline.0,
                        stepped.1.render(),
                        baseline.1.render()
                    ),
                );
            } else {
                cx.check(PM, true, String::new);
            }
            set_also_live(Vec::new());
            cx.check(PM, b.bx.intact() && c.intact(), || "canary overwritten".to_string());
            drop(c);
            let mc::mapsys::Built { bx, probes, .. } = b;
            drop(bx);
            drop(probes);
            flush_ledger(cx, PM | C02, "dropping both copies");
        }
    }
}

fn per_state_set<const N: usize>(keys: &[(u8, u8)], cx: &mut Ctx) {
    pl::reset();
    cx.here.op = "Set::clone".into();
    cx.evaluations += 1;
    let mut s = Canary::boxed(Set::<Kx, N>::new());
    for (k, t) in keys {
        s.c.insert(Kx::new(*k, *t));
    }
    let before: Vec<KD> = s.c.iter().map(|k| k.desc()).collect();
    let c0 = pl::counts();
    let first_new = pl::next_id();
    let mut c = Canary::boxed(s.c.clone());
    let c1 = pl::counts();
    let got: Vec<KD> = c.c.iter().map(|k| k.desc()).collect();
    let clones = (c1[pl::Cb::Clone as usize] - c0[pl::Cb::Clone as usize]) as usize;
    cx.check(PM, clones == before.len(), || format!("Set::clone of {} elements made {clones} clones", before.len()));
    let mut a: Vec<(u8, u8)> = got.iter().map(|k| (k.k, k.tag)).collect();
    let mut b: Vec<(u8, u8)> = before.iter().map(|k| (k.k, k.tag)).collect();
    a.sort();
    b.sort();
    cx.check(PM, a == b, || format!("the cloned set holds {got:?}, the original {before:?}"));
    for k in &got {
        let src = pl::obj(k.id).map(|o| o.clone_of);
        cx.check(PM, k.id >= first_new && before.iter().any(|x| Some(x.id) == src), || format!("cloned element {k} is not a fresh clone of an original element"));
    }
    cx.check(PM, c.c == s.c && s.c == c.c, || "cloned set != original".to_string());
    // mutate the clone: remove everything, the original is untouched; then the reverse
    for k in &before {
        c.c.remove::<u8>(&k.k);
    }
    let now: Vec<KD> = s.c.iter().map(|k| k.desc()).collect();
    cx.check(PM, now == before && c.c.is_empty(), || "emptying the cloned set changed the original".to_string());
    drop(c);
    let c2 = Canary::boxed(s.c.clone());
    let kept: Vec<KD> = c2.c.iter().map(|k| k.desc()).collect();
    s.c.clear();
    let now: Vec<KD> = c2.c.iter().map(|k| k.desc()).collect();
    cx.check(PM, now == kept && now.len() == before.len(), || "clearing the original changed the cloned set".to_string());
    drop(s);
    for k in &kept {
        cx.check(PM, pl::is_live(k.id), || format!("dropping the original destroyed element #{} of the clone", k.id));
    }
    drop(c2);
    flush_ledger(cx, PM | C02, "Set::clone");
    cx.check(PM | C02, pl::live_count() == 0, || "objects still alive after both sets were dropped".to_string());
}

/// `dst.clone_from(&src)` for an ordered pair of states: afterwards dst holds exactly one fresh
/// clone of every entry of src (and nothing else), src is untouched, everything dst held before
/// has been destroyed exactly once, and the two stay independent.
fn clone_from_pair<K: KeyT, V: ValT, const N: usize>(gsys: &MapSys<K, V, N>, dpath: &[u32], spath: &[u32], cx: &mut Ctx) {
    let ledger = K::LEDGER && V::LEDGER;
    let mut d = gsys.build(dpath, cx);
    let s = gsys.build_more(spath, cx);
    cx.here.op = "dst.clone_from(&src)".into();
    cx.evaluations += 1;
    let d_before = entries_of(&d.bx.c);
    let s_before = entries_of(&s.bx.c);
    if !d_before.is_empty() || !s_before.is_empty() {
        cx.nontrivial += 1;
    }
    cx.class(match d_before.len().cmp(&s_before.len()) {
        std::cmp::Ordering::Less => "clone_from: dst shorter",
        std::cmp::Ordering::Equal => "clone_from: same length",
        std::cmp::Ordering::Greater => "clone_from: dst longer",
    });
    let c0 = pl::counts();
    let first_new = pl::next_id();
    d.bx.c.clone_from(&s.bx.c);
    let c1 = pl::counts();
    let got = entries_of(&d.bx.c);
    let s_after = entries_of(&s.bx.c);
    cx.check(PM, s_after == s_before, || format!("clone_from changed the source: {s_before:?} -> {s_after:?}"));
    let strip = |e: &[(KD, VD)]| {
        let mut x: Vec<(u8, u8, u8)> = e.iter().map(|(k, v)| (k.k, k.tag, v.v)).collect();
        x.sort();
        x
    };
    cx.check(PM, strip(&got) == strip(&s_before), || format!("after clone_from dst holds {got:?} but src holds {s_before:?} (dst held {d_before:?})"));
    cx.check(PM, d.bx.c.len() == s.bx.c.len(), || format!("after clone_from dst.len() is {} but src.len() is {}", d.bx.c.len(), s.bx.c.len()));
    cx.check(PM, d.bx.c == s.bx.c && s.bx.c == d.bx.c, || "after clone_from dst != src".to_string());
    let clones = (c1[pl::Cb::Clone as usize] - c0[pl::Cb::Clone as usize]) as usize;
    cx.check(PM, clones == 2 * s_before.len(), || format!("clone_from of {} entries made {clones} element clones, expected {}", s_before.len(), 2 * s_before.len()));
    for (k, v) in &s_before {
        let (ko, vo) = (pl::obj(k.id).unwrap(), pl::obj(v.id).unwrap());
        cx.check(PM, ko.clones == 1 && vo.clones == 1, || format!("source key {k} was cloned {} times and its value {v} {} times", ko.clones, vo.clones));
    }
    for (k, v) in &got {
        let ko = pl::obj(k.id).map(|o| o.clone_of);
        let vo = pl::obj(v.id).map(|o| o.clone_of);
        let src = s_before.iter().find(|(bk, _)| Some(bk.id) == ko);
        let good = k.id >= first_new && v.id >= first_new && src.is_some_and(|(_, bv)| Some(bv.id) == vo);
        cx.check(PM, good, || format!("after clone_from dst entry {k}={v} is not a fresh clone of one source entry"));
    }
    if ledger {
        let drops = (c1[pl::Cb::Drop as usize] - c0[pl::Cb::Drop as usize]) as usize;
        cx.check(PM | C02, drops == 2 * d_before.len(), || format!("clone_from destroyed {drops} objects but dst held {} entries", d_before.len()));
        for (k, v) in &d_before {
            cx.check(PM | C02, !pl::is_live(k.id) && !pl::is_live(v.id), || format!("dst's previous entry {k}={v} is still alive after clone_from"));
        }
    }
    invariants(&d.bx.c, cx, PM);
    cx.check(PM | C02, d.bx.intact() && s.bx.intact(), || "a canary next to a container was overwritten".to_string());
    flush_ledger(cx, PM | C02, "clone_from");
    // independence: empty dst, src untouched; then drop src, dst's objects stay alive
    d.bx.c.clear();
    cx.check(PM, entries_of(&s.bx.c) == s_before, || "clearing dst after clone_from changed src".to_string());
    d.bx.c.clone_from(&s.bx.c);
    let kept = entries_of(&d.bx.c);
    let mc::mapsys::Built { bx: sbx, probes: sprobes, .. } = s;
    drop(sbx);
    if ledger {
        for id in ids(&kept) {
            cx.check(PM, pl::is_live(id), || format!("dropping src destroyed object #{id} of dst"));
        }
    }
    let mc::mapsys::Built { bx: dbx, probes: dprobes, .. } = d;
    drop(dbx);
    drop(sprobes);
    drop(dprobes);
    flush_ledger(cx, PM | C02, "dropping both containers after clone_from");
    if ledger {
        cx.check(PM | C02, pl::live_count() == 0, || format!("{} objects still alive after both containers were dropped", pl::live_count()));
    }
}

fn clone_from_set_pair<const N: usize>(dkeys: &[(u8, u8)], skeys: &[(u8, u8)], cx: &mut Ctx) {
    pl::reset();
    cx.here.op = "Set: dst.clone_from(&src)".into();
    cx.evaluations += 1;
    let mut d = Canary::boxed(Set::<Kx, N>::new());
    for (k, t) in dkeys {
        d.c.insert(Kx::new(*k, *t));
    }
    let mut s = Canary::boxed(Set::<Kx, N>::new());
    for (k, t) in skeys {
        s.c.insert(Kx::new(*k, *t));
    }
    let d_before: Vec<KD> = d.c.iter().map(|k| k.desc()).collect();
    let s_before: Vec<KD> = s.c.iter().map(|k| k.desc()).collect();
    let c0 = pl::counts();
    let first_new = pl::next_id();
    d.c.clone_from(&s.c);
    let c1 = pl::counts();
    let got: Vec<KD> = d.c.iter().map(|k| k.desc()).collect();
    let s_after: Vec<KD> = s.c.iter().map(|k| k.desc()).collect();
    cx.check(PM, s_after == s_before, || "Set::clone_from changed the source".to_string());
    let strip = |e: &[KD]| {
        let mut x: Vec<(u8, u8)> = e.iter().map(|k| (k.k, k.tag)).collect();
        x.sort();
        x
    };
    cx.check(PM, strip(&got) == strip(&s_before) && d.c.len() == s.c.len(), || format!("after Set::clone_from dst holds {got:?} but src holds {s_before:?} (dst held {d_before:?})"));
    cx.check(PM, d.c == s.c && s.c == d.c, || "after Set::clone_from dst != src".to_string());
    let clones = (c1[pl::Cb::Clone as usize] - c0[pl::Cb::Clone as usize]) as usize;
    cx.check(PM, clones == s_before.len(), || format!("Set::clone_from of {} elements made {clones} clones", s_before.len()));
    for k in &got {
        let src = pl::obj(k.id).map(|o| o.clone_of);
        cx.check(PM, k.id >= first_new && s_before.iter().any(|x| Some(x.id) == src), || format!("after Set::clone_from element {k} is not a fresh clone of a source element"));
    }
    for k in &d_before {
        cx.check(PM | C02, !pl::is_live(k.id), || format!("dst's previous element {k} is still alive after Set::clone_from"));
    }
    s.c.clear();
    let now: Vec<KD> = d.c.iter().map(|k| k.desc()).collect();
    cx.check(PM, now == got, || "clearing src after Set::clone_from changed dst".to_string());
    drop(s);
    drop(d);
    flush_ledger(cx, PM | C02, "Set::clone_from");
    cx.check(PM | C02, pl::live_count() == 0, || "objects still alive after both sets were dropped".to_string());
}

/// Element shapes: clone / clone_from of maps and sets of other key/value types (zero-sized key
/// and/or value, plain Copy, heap-owning, large). Entries are compared by their codes.
fn shape_clone<K: KeyT, V: ValT, const N: usize>(rep: &mut EngineReport, nk: u8, nv: u8, threads: usize) {
    use mc::setsys::{SAlpha, SetSys};
    let msys = MapSys::<K, V, N>::new(nk, nv, Alpha::Gen);
    let ssys = SetSys::<K, N>::new(nk, SAlpha::Gen, 0);
    let config = format!("element shape: clone / clone_from of Map<{},{},{N}> and Set<{},{N}>", K::NAME, V::NAME, K::NAME);
    let t0 = std::time::Instant::now();
    let mut q = Ctx::new(0);
    let mout = bfs(&msys, threads, &Caps::default(), &mut q);
    let sout = bfs(&ssys, threads, &Caps::default(), &mut q);
    let mut cx = rep.cx.fork();
    cx.here.config = config.clone();
    let codes = |e: &[(KD, VD)]| {
        let mut x: Vec<(u8, u8, u8)> = e.iter().map(|(k, v)| (k.k, k.tag, v.v)).collect();
        x.sort();
        x
    };
    let nm = mout.states.len();
    par_states(nm * nm, threads, &mut cx, |i, lcx| {
        let (d, s) = (i / nm, i % nm);
        let (dpath, spath) = (mout.path_of(d), mout.path_of(s));
        lcx.here.path = spath.iter().map(|i| msys.ops[*i as usize].to_string()).collect();
        lcx.here.path_idx = spath.clone();
        lcx.here.extra = format!("shape {}/{}", K::NAME, V::NAME);
        lcx.evaluations += 1;
        let src = msys.build(&spath, lcx);
        let want = codes(&entries_of(&src.bx.c));
        if !want.is_empty() {
            lcx.nontrivial += 1;
        }
        if d == 0 {
            lcx.here.op = "clone".into();
            let before = V::counters();
            let c = src.bx.c.clone();
            if let (Some(a), Some(b)) = (before, V::counters()) {
                // counted zero-sized values: one clone per stored value, nothing created or destroyed
                lcx.check(PM, b[1] - a[1] == src.bx.c.len() as u64 && b[0] == a[0] && b[2] == a[2], || {
                    format!("cloning a map of {} zero-sized values (with Clone and Drop impls) made {} clones, {} creations and {} destructions", src.bx.c.len(), b[1] - a[1], b[0] - a[0], b[2] - a[2])
                });
            }
            let got = codes(&entries_of(&c));
            lcx.check(PM, got == want && c.len() == src.bx.c.len(), || format!("the clone holds {got:?} (len {}) but the original holds {want:?}", c.len()));
            lcx.check(PM, c == src.bx.c && src.bx.c == c, || "clone != original".to_string());
            let mut c = c;
            c.clear();
            lcx.check(PM, codes(&entries_of(&src.bx.c)) == want, || "clearing the clone changed the original".to_string());
        }
        lcx.here.op = "dst.clone_from(&src)".into();
        let mut dst = msys.build_more(&dpath, lcx);
        dst.bx.c.clone_from(&src.bx.c);
        let got = codes(&entries_of(&dst.bx.c));
        lcx.check(PM, got == want && dst.bx.c.len() == src.bx.c.len() && dst.bx.c == src.bx.c, || format!("after clone_from dst holds {got:?} but src holds {want:?}"));
        lcx.check(PM, codes(&entries_of(&src.bx.c)) == want, || "clone_from changed the source".to_string());
        invariants(&dst.bx.c, lcx, PM);
        drop(dst);
        drop(src);
        if let Some([made, cloned, gone]) = V::counters() {
            lcx.check(PM | C02, gone == made + cloned, || {
                format!("zero-sized values with a destructor: {made} created and {cloned} cloned, but {gone} destroyed once the original and its clones are gone")
            });
        }
    });
    let ns = sout.states.len();
    par_states(ns * ns, threads, &mut cx, |i, lcx| {
        let (d, s) = (i / ns, i % ns);
        let (dpath, spath) = (sout.path_of(d), sout.path_of(s));
        lcx.here.path = spath.iter().map(|i| ssys.ops[*i as usize].to_string()).collect();
        lcx.here.path_idx = spath.clone();
        lcx.here.extra = format!("shape set {}", K::NAME);
        lcx.evaluations += 1;
        let src = ssys.build(&spath, lcx);
        let elems = |s: &Set<K, N>| {
            let mut x: Vec<(u8, u8)> = s.iter().map(|k| (k.kd().k, k.kd().tag)).collect();
            x.sort();
            x
        };
        let want = elems(&src.bx.c);
        if !want.is_empty() {
            lcx.nontrivial += 1;
        }
        if d == 0 {
            lcx.here.op = "Set::clone".into();
            let c = src.bx.c.clone();
            let got = elems(&c);
            lcx.check(PM, got == want && c.len() == src.bx.c.len(), || format!("the cloned set holds {got:?} (len {}) but the original holds {want:?}", c.len()));
            lcx.check(PM, c == src.bx.c && src.bx.c == c, || "cloned set != original".to_string());
        }
        lcx.here.op = "Set: dst.clone_from(&src)".into();
        let mut dst = ssys.build(&dpath, lcx);
        dst.bx.c.clone_from(&src.bx.c);
        let got = elems(&dst.bx.c);
        lcx.check(PM, got == want && dst.bx.c.len() == src.bx.c.len() && dst.bx.c == src.bx.c, || format!("after Set::clone_from dst holds {got:?} but src holds {want:?}"));
    });
    rep.configs.push(J::obj().set("config", config).set("map_states", nm).set("set_states", ns).set("wall_s", t0.elapsed().as_secs_f64()));
    rep.states += (nm + ns) as u64;
    rep.transitions += cx.evaluations;
    rep.cx.merge(cx);
}

fn shapes_n<const N: usize>(rep: &mut EngineReport, nk: u8, nv: u8, threads: usize) {
    shape_clone::<(), (), N>(rep, nk, nv, threads);
    shape_clone::<(), u8, N>(rep, nk, nv, threads);
    shape_clone::<u8, (), N>(rep, nk, nv, threads);
    shape_clone::<u8, mc::payload::Zc, N>(rep, nk, nv, threads);
    shape_clone::<u8, u8, N>(rep, nk, nv, threads);
    shape_clone::<String, String, N>(rep, nk, nv, threads);
    shape_clone::<u8, mc::payload::Big, N>(rep, nk, nv, threads);
    shape_clone::<u8, mc::payload::Al, N>(rep, nk, nv, threads);
}

fn args_cap() -> usize {
    Args::from_env().usize("pair-cap", 4_000_000)
}

fn run_n<K: KeyT, V: ValT, const N: usize>(rep: &mut EngineReport, nk: u8, nv: u8, threads: usize, with_sets: bool, replay: Option<Vec<u32>>) -> i32 {
    let gsys = MapSys::<K, V, N>::new(nk, nv, Alpha::Gen);
    let full = MapSys::<K, V, N>::new(nk, nv, Alpha::Full);
    let config = format!("clone of Map<{},{},{N}> keys={} tags={} values={}", K::NAME, V::NAME, gsys.nk, K::TAGS, gsys.nv);
    if let Some(path) = replay {
        let mut cx = Ctx::new(rep.cx.enabled);
        cx.here.config = config.clone();
        cx.here.path_idx = path.clone();
        cx.here.path = path.iter().map(|i| gsys.ops[*i as usize].to_string()).collect();
        per_state::<K, V, N>(&gsys, &full, &path, &mut cx);
        let v: Vec<J> = cx.best.iter().flatten().map(|b| b.to_json()).collect();
        let n = v.len();
        println!("{}", J::obj().set("config", config).set("violations", J::Arr(v)).dump());
        return i32::from(n > 0);
    }
    let t0 = std::time::Instant::now();
    let mut q = Ctx::new(0);
    let out = bfs(&gsys, threads, &Caps::default(), &mut q);
    let mut cx = rep.cx.fork();
    cx.here.config = config.clone();
    par_states(out.states.len(), threads, &mut cx, |s, lcx| {
        let path = out.path_of(s);
        lcx.here.path_idx = path.clone();
        lcx.here.path = path.iter().map(|i| gsys.ops[*i as usize].to_string()).collect();
        crumb("clone_mc state");
        per_state::<K, V, N>(&gsys, &full, &path, lcx);
        if with_sets {
            let keys: Vec<(u8, u8)> = out.states[s].snap.entries().iter().map(|e| (e.0, e.1)).collect();
            if out.states[s].snap.entries().iter().all(|e| e.2 == 0) {
                per_state_set::<N>(&keys, lcx);
            }
        }
        lcx.sample(|| J::obj().set("state", out.states[s].snap.render()).set("observed", "clone(), then every op on either copy"));
    });
    // clone_from: ordered pairs (dst, src) of states. All pairs when that stays below the cap; otherwise
    // every state as src against an evenly spaced subset of dst states that still contains every length.
    let n = out.states.len();
    let cap = args_cap();
    let stride = (n * n).div_ceil(cap).max(1);
    let dsts: Vec<usize> = (0..n).filter(|i| i % stride == 0).collect();
    let npairs = dsts.len() * n;
    par_states(npairs, threads, &mut cx, |i, lcx| {
        let (d, s) = (dsts[i / n], i % n);
        let (dpath, spath) = (out.path_of(d), out.path_of(s));
        lcx.here.path_idx = dpath.clone();
        lcx.here.path = dpath.iter().map(|i| gsys.ops[*i as usize].to_string()).collect();
        lcx.here.extra = format!("src built by {:?}", spath.iter().map(|i| gsys.ops[*i as usize].to_string()).collect::<Vec<_>>());
        clone_from_pair::<K, V, N>(&gsys, &dpath, &spath, lcx);
        if with_sets {
            let (de, se) = (out.states[d].snap.entries(), out.states[s].snap.entries());
            if de.iter().chain(se.iter()).all(|e| e.2 == 0) {
                let dk: Vec<(u8, u8)> = de.iter().map(|e| (e.0, e.1)).collect();
                let sk: Vec<(u8, u8)> = se.iter().map(|e| (e.0, e.1)).collect();
                clone_from_set_pair::<N>(&dk, &sk, lcx);
            }
        }
    });
    rep.configs.push(
        J::obj()
            .set("config", config)
            .set("states", out.states.len())
            .set("ops", full.ops.len())
            .set("clone_from_pairs", npairs)
            .set("clone_from_dst_stride", stride)
            .set("wall_s", t0.elapsed().as_secs_f64()),
    );
    if stride > 1 {
        rep.caps_hit.push(format!("{}: clone_from ran on {npairs} of {} ordered state pairs (every state as source, every {stride}-th state as destination)", cx.here.config, n * n));
    }
    rep.states += out.states.len() as u64;
    rep.transitions += cx.evaluations;
    rep.cx.merge(cx);
    0
}

fn main() {
    let args = Args::from_env();
    silence_panics();
    install_crash_handler(args.get("crumb"));
    let mut rep = EngineReport::new("clone_mc", args.props());
    let ns = args.list_usize("n", &[0, 1, 2, 3]);
    let nv = args.usize("v", 2) as u8;
    let threads = args.threads();
    let payload = args.get("payload").unwrap_or("both").to_string();
    if let Some(p) = args.get("replay-path") {
        let path = mc::bfs::parse_idx_list(p);
        let n = ns[0];
        let nk = (n + 1) as u8;
        let nodrop = args.get("replay-extra").map(|e| e.contains("nodrop")).unwrap_or(false);
        let code = if nodrop {
            mc::with_n!(n, run_n::<Kn, Vn>(&mut rep, nk, nv, threads, false, Some(path)))
        } else {
            mc::with_n!(n, run_n::<Kx, Vx>(&mut rep, nk, nv, threads, false, Some(path)))
        };
        std::process::exit(code);
    }
    for n in ns {
        let nk = (n + 1) as u8;
        if args.flag("shapes") {
            mc::with_n!(n, shapes_n::<>(&mut rep, nk, nv, threads));
            continue;
        }
        if payload != "nodrop" {
            mc::with_n!(n, run_n::<Kx, Vx>(&mut rep, nk, nv, threads, true, None));
        }
        if payload != "ledger" {
            mc::with_n!(n, run_n::<Kn, Vn>(&mut rep, nk, nv, threads, false, None));
        }
    }
    std::process::exit(rep.finish(args.get("out")));
}
