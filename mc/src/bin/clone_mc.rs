//! clone_mc (C15): every distinct state -> clone(); the clone is made with exactly one clone
//! per stored key and value, holds equal entries with fresh identities, compares equal; then
//! every single operation of the mutating alphabet on the clone (original observed) and on the
//! original (clone observed); dropping either leaves the other intact. Run on the ledger
//! payloads and on payloads without drop glue (observable Clone only).

use mc::bfs::{bfs, par_states, Caps};
use mc::ctx::*;
use mc::json::J;
use mc::mapsys::{applicable, entries_of, flush_ledger, invariants, set_also_live, Alpha, MapSys, RefMap};
use mc::payload::{self as pl, KeyT, Kn, Kx, ValT, Vn, Vx, KD, VD};
use micromap::{Map, Set};

const PM: PMask = C15;

/// Clone the built container and judge the clone itself. Returns the clone and its model.
fn clone_and_judge<K: KeyT, V: ValT, const N: usize>(orig: &Map<K, V, N>, cx: &mut Ctx) -> Option<(Box<Canary<Map<K, V, N>>>, RefMap)> {
    let before = entries_of(orig);
    let c0 = pl::counts();
    let first_new = pl::next_id();
    let c = Canary::boxed(orig.clone());
    let c1 = pl::counts();
    let after = entries_of(orig);
    cx.check(PM, before == after, || format!("clone() changed the original: {before:?} -> {after:?}"));
    let got = entries_of(&c.c);
    let n = before.len();
    let clones = (c1[pl::Cb::Clone as usize] - c0[pl::Cb::Clone as usize]) as usize;
    cx.check(PM, clones == 2 * n, || format!("clone() of {n} entries made {clones} element clones, expected {}", 2 * n));
    cx.check(PM, c1[pl::Cb::Drop as usize] == c0[pl::Cb::Drop as usize], || "clone() destroyed an element".to_string());
    // same entries (k, tag, v)
    let strip = |e: &[(KD, VD)]| {
        let mut x: Vec<(u8, u8, u8)> = e.iter().map(|(k, v)| (k.k, k.tag, v.v)).collect();
        x.sort();
        x
    };
    let same = strip(&got) == strip(&before);
    cx.check(PM, same, || format!("the clone holds {got:?} but the original holds {before:?}"));
    cx.check(PM, c.c.len() == orig.len(), || format!("clone has len {} vs {}", c.c.len(), orig.len()));
    // every stored object was cloned exactly once, and the clone holds exactly those clones
    let mut ok_ids = true;
    for (k, v) in &before {
        let ko = pl::obj(k.id).unwrap();
        let vo = pl::obj(v.id).unwrap();
        cx.check(PM, ko.clones == 1 && vo.clones == 1, || {
            format!("stored key {k} was cloned {} times and its value {v} {} times", ko.clones, vo.clones)
        });
    }
    for (k, v) in &got {
        let fresh = k.id >= first_new && v.id >= first_new;
        let ko = pl::obj(k.id).map(|o| o.clone_of);
        let vo = pl::obj(v.id).map(|o| o.clone_of);
        let src = before.iter().find(|(bk, _)| Some(bk.id) == ko);
        let good = fresh && src.is_some_and(|(_, bv)| Some(bv.id) == vo);
        ok_ids &= good;
        cx.check(PM, good, || format!("clone entry {k}={v} is not a fresh clone of one original entry (clone_of {ko:?}/{vo:?})"));
    }
    cx.check(PM, c.c == *orig && *orig == c.c, || "clone != original".to_string());
    flush_ledger(cx, PM | C02, "clone()");
    if !(same && ok_ids) {
        return None;
    }
    let mut model = RefMap::new(N);
    for (k, v) in &got {
        model.m.insert(k.k, (*k, *v));
    }
    Some((c, model))
}

fn ids(e: &[(KD, VD)]) -> Vec<u32> {
    e.iter().flat_map(|(k, v)| [k.id, v.id]).collect()
}

fn per_state<K: KeyT, V: ValT, const N: usize>(gsys: &MapSys<K, V, N>, full: &MapSys<K, V, N>, path: &[u32], cx: &mut Ctx) {
    // 1. clone, judged; drop the clone first, then the original; and the other way round
    for drop_clone_first in [true, false] {
        let b = gsys.build(path, cx);
        cx.here.op = "clone".into();
        cx.evaluations += 1;
        let Some((c, _)) = clone_and_judge(&b.bx.c, cx) else { gsys.teardown(b, cx, C02); continue };
        let orig_entries = entries_of(&b.bx.c);
        let clone_entries = entries_of(&c.c);
        let mc::mapsys::Built { bx, probes, .. } = b;
        if drop_clone_first {
            drop(c);
            let still = entries_of(&bx.c);
            cx.check(PM, still == orig_entries, || "dropping the clone changed the original".to_string());
            if K::LEDGER {
                for id in ids(&orig_entries) {
                    cx.check(PM, pl::is_live(id), || format!("dropping the clone destroyed object #{id} of the original"));
                }
            }
            invariants(&bx.c, cx, PM);
            drop(bx);
        } else {
            drop(bx);
            let still = entries_of(&c.c);
            cx.check(PM, still == clone_entries, || "dropping the original changed the clone".to_string());
            if K::LEDGER {
                for id in ids(&clone_entries) {
                    cx.check(PM, pl::is_live(id), || format!("dropping the original destroyed object #{id} of the clone"));
                }
            }
            invariants(&c.c, cx, PM);
            drop(c);
        }
        drop(probes);
        flush_ledger(cx, PM | C02, "dropping both copies");
        if K::LEDGER {
            cx.check(PM | C02, pl::live_count() == 0, || format!("{} objects are still alive after both copies were dropped", pl::live_count()));
        }
    }
    // 2. independence: every operation on one copy leaves the other untouched
    for (oi, op) in full.ops.iter().enumerate() {
        for on_clone in [true, false] {
            let mut q = Ctx::new(0);
            q.quiet = true;
            let mut b = gsys.build(path, &mut q);
            if !applicable(&b.model, op) {
                break;
            }
            let Some((mut c, mut cmodel)) = clone_and_judge(&b.bx.c, &mut q) else { break };
            cx.here.op = format!("{op} on the {}", if on_clone { "clone" } else { "original" });
            cx.here.op_idx = oi as u32;
            cx.evaluations += 1;
            cx.nontrivial += 1;
            let orig_entries = entries_of(&b.bx.c);
            let clone_entries = entries_of(&c.c);
            let mut sub = Ctx::new(!0);
            sub.here = cx.here.clone();
            let mut leaked = Vec::new();
            if on_clone {
                set_also_live(ids(&orig_entries));
                let out = full.step(&mut c, &mut cmodel, &b.probes, op, &mut sub, &mut leaked);
                let _ = out;
                let now = entries_of(&b.bx.c);
                cx.check(PM, now == orig_entries, || format!("{op} on the clone changed the original: {orig_entries:?} -> {now:?}"));
                invariants(&b.bx.c, cx, PM);
            } else {
                set_also_live(ids(&clone_entries));
                let out = full.step(&mut b.bx, &mut b.model, &b.probes, op, &mut sub, &mut leaked);
                let _ = out;
                let now = entries_of(&c.c);
                cx.check(PM, now == clone_entries, || format!("{op} on the original changed the clone: {clone_entries:?} -> {now:?}"));
                invariants(&c.c, cx, PM);
            }
            // anything the step itself found on the stepped copy is a symptom of shared state
            if sub.total_violations() > 0 {
                let m = sub.best.iter().flatten().next().map(|v| v.msg.clone()).unwrap_or_default();
                cx.violate(PM, format!("the stepped copy misbehaves after clone(): {m}"));
            } else {
                cx.check(PM, true, String::new);
            }
            set_also_live(Vec::new());
            cx.check(PM, b.bx.intact() && c.intact(), || "canary overwritten".to_string());
            drop(c);
            let mc::mapsys::Built { bx, probes, .. } = b;
            drop(bx);
            drop(probes);
            flush_ledger(cx, PM | C02, "dropping both copies");
        }
    }
}

fn per_state_set<const N: usize>(keys: &[(u8, u8)], cx: &mut Ctx) {
    pl::reset();
    cx.here.op = "Set::clone".into();
    cx.evaluations += 1;
    let mut s = Canary::boxed(Set::<Kx, N>::new());
    for (k, t) in keys {
        s.c.insert(Kx::new(*k, *t));
    }
    let before: Vec<KD> = s.c.iter().map(|k| k.desc()).collect();
    let c0 = pl::counts();
    let first_new = pl::next_id();
    let mut c = Canary::boxed(s.c.clone());
    let c1 = pl::counts();
    let got: Vec<KD> = c.c.iter().map(|k| k.desc()).collect();
    let clones = (c1[pl::Cb::Clone as usize] - c0[pl::Cb::Clone as usize]) as usize;
    cx.check(PM, clones == before.len(), || format!("Set::clone of {} elements made {clones} clones", before.len()));
    let mut a: Vec<(u8, u8)> = got.iter().map(|k| (k.k, k.tag)).collect();
    let mut b: Vec<(u8, u8)> = before.iter().map(|k| (k.k, k.tag)).collect();
    a.sort();
    b.sort();
    cx.check(PM, a == b, || format!("the cloned set holds {got:?}, the original {before:?}"));
    for k in &got {
        let src = pl::obj(k.id).map(|o| o.clone_of);
        cx.check(PM, k.id >= first_new && before.iter().any(|x| Some(x.id) == src), || format!("cloned element {k} is not a fresh clone of an original element"));
    }
    cx.check(PM, c.c == s.c && s.c == c.c, || "cloned set != original".to_string());
    // mutate the clone: remove everything, the original is untouched; then the reverse
    for k in &before {
        c.c.remove::<u8>(&k.k);
    }
    let now: Vec<KD> = s.c.iter().map(|k| k.desc()).collect();
    cx.check(PM, now == before && c.c.is_empty(), || "emptying the cloned set changed the original".to_string());
    drop(c);
    let c2 = Canary::boxed(s.c.clone());
    let kept: Vec<KD> = c2.c.iter().map(|k| k.desc()).collect();
    s.c.clear();
    let now: Vec<KD> = c2.c.iter().map(|k| k.desc()).collect();
    cx.check(PM, now == kept && now.len() == before.len(), || "clearing the original changed the cloned set".to_string());
    drop(s);
    for k in &kept {
        cx.check(PM, pl::is_live(k.id), || format!("dropping the original destroyed element #{} of the clone", k.id));
    }
    drop(c2);
    flush_ledger(cx, PM | C02, "Set::clone");
    cx.check(PM | C02, pl::live_count() == 0, || "objects still alive after both sets were dropped".to_string());
}

fn run_n<K: KeyT, V: ValT, const N: usize>(rep: &mut EngineReport, nk: u8, nv: u8, threads: usize, with_sets: bool, replay: Option<Vec<u32>>) -> i32 {
    let gsys = MapSys::<K, V, N>::new(nk, nv, Alpha::Gen);
    let full = MapSys::<K, V, N>::new(nk, nv, Alpha::Full);
    let config = format!("clone of Map<{},{},{N}> keys={} tags={} values={}", K::NAME, V::NAME, gsys.nk, K::TAGS, gsys.nv);
    if let Some(path) = replay {
        let mut cx = Ctx::new(rep.cx.enabled);
        cx.here.config = config.clone();
        cx.here.path_idx = path.clone();
        cx.here.path = path.iter().map(|i| gsys.ops[*i as usize].to_string()).collect();
        per_state::<K, V, N>(&gsys, &full, &path, &mut cx);
        let v: Vec<J> = cx.best.iter().flatten().map(|b| b.to_json()).collect();
        let n = v.len();
        println!("{}", J::obj().set("config", config).set("violations", J::Arr(v)).dump());
        return i32::from(n > 0);
    }
    let t0 = std::time::Instant::now();
    let mut q = Ctx::new(0);
    let out = bfs(&gsys, threads, &Caps::default(), &mut q);
    let mut cx = rep.cx.fork();
    cx.here.config = config.clone();
    par_states(out.states.len(), threads, &mut cx, |s, lcx| {
        let path = out.path_of(s);
        lcx.here.path_idx = path.clone();
        lcx.here.path = path.iter().map(|i| gsys.ops[*i as usize].to_string()).collect();
        crumb("clone_mc state");
        per_state::<K, V, N>(&gsys, &full, &path, lcx);
        if with_sets {
            let keys: Vec<(u8, u8)> = out.states[s].snap.entries().iter().map(|e| (e.0, e.1)).collect();
            if out.states[s].snap.entries().iter().all(|e| e.2 == 0) {
                per_state_set::<N>(&keys, lcx);
            }
        }
        lcx.sample(|| J::obj().set("state", out.states[s].snap.render()).set("observed", "clone(), then every op on either copy"));
    });
    rep.configs.push(J::obj().set("config", config).set("states", out.states.len()).set("ops", full.ops.len()).set("wall_s", t0.elapsed().as_secs_f64()));
    rep.states += out.states.len() as u64;
    rep.transitions += cx.evaluations;
    rep.cx.merge(cx);
    0
}

fn main() {
    let args = Args::from_env();
    silence_panics();
    install_crash_handler(args.get("crumb"));
    let mut rep = EngineReport::new("clone_mc", args.props());
    let ns = args.list_usize("n", &[0, 1, 2, 3]);
    let nv = args.usize("v", 2) as u8;
    let threads = args.threads();
    let payload = args.get("payload").unwrap_or("both").to_string();
    if let Some(p) = args.get("replay-path") {
        let path = mc::bfs::parse_idx_list(p);
        let n = ns[0];
        let nk = (n + 1) as u8;
        let nodrop = args.get("replay-extra").map(|e| e.contains("nodrop")).unwrap_or(false);
        let code = if nodrop {
            mc::with_n!(n, run_n::<Kn, Vn>(&mut rep, nk, nv, threads, false, Some(path)))
        } else {
            mc::with_n!(n, run_n::<Kx, Vx>(&mut rep, nk, nv, threads, false, Some(path)))
        };
        std::process::exit(code);
    }
    for n in ns {
        let nk = (n + 1) as u8;
        if payload != "nodrop" {
            mc::with_n!(n, run_n::<Kx, Vx>(&mut rep, nk, nv, threads, true, None));
        }
        if payload != "ledger" {
            mc::with_n!(n, run_n::<Kn, Vn>(&mut rep, nk, nv, threads, false, None));
        }
    }
    std::process::exit(rep.finish(args.get("out")));
}
