//! liar_mc (C17): safe operations under a key type whose `==`, whose borrowed form's `==` and
//! whose `borrow()` give inconsistent answers. The environment is part of the alphabet:
//!
//!  * a **state** is any layout of `Map<Lk, Vx, N>` / `Set<Lk, N>` - every sequence of (key,
//!    value) of length <= N over the universe, *including duplicate keys*, which a lying `==`
//!    makes reachable. A state is built through the real API (inserts under an `==` that answers
//!    "not equal"), in two flavours: dead slots never written, and dead slots holding stale
//!    byte copies of destroyed elements (fill to capacity, then remove the fillers);
//!  * a **transition** is (safe operation, tape): call number p among the comparisons and
//!    borrows the operation makes deviates from the lawful answer iff p is on the tape. Tapes
//!    are enumerated by the deviation-bounded recursion: all tapes with <= B deviations, each
//!    deviation at a position the operation really reaches (B = 64 means every tape);
//!  * the **oracle** is memory safety only - results are never compared with a model: ledger
//!    (every element destroyed exactly once, no dead/uninitialised slot used), len() <=
//!    capacity() and == what iteration yields, every yielded object live and stored once,
//!    references handed out together pairwise non-overlapping and inside the container,
//!    canaries (or, in the ASan build, the allocator's red zones and the stack red zones),
//!    and the surviving container is used further and dropped under the same watch.

use mc::bfs::par_states;
use mc::ctx::*;
use mc::json::J;
use mc::mapsys::{alphabet, exec_real, flush_ledger, prepare, Alpha, MapOp, Side};
use mc::payload::{self as pl, KeyT, Lk, TapeMode, ValT, Vx, LQ};
use mc::survivor::*;
use micromap::{Map, Set};
use std::borrow::Borrow;
use std::panic::{catch_unwind, AssertUnwindSafe};

const PM: PMask = C17;
const FILLER: u8 = 7;
/// capacity of the "other" operand in two-container operations
const M: usize = 4;

type St = Vec<(u8, u8)>;

fn all_states(n: usize, nk: u8, nv: u8) -> Vec<St> {
    let mut out: Vec<St> = vec![vec![]];
    let mut level: Vec<St> = vec![vec![]];
    for _ in 0..n {
        let mut next = Vec::new();
        for s in &level {
            for k in 0..nk {
                for v in 0..nv {
                    let mut t = s.clone();
                    t.push((k, v));
                    next.push(t);
                }
            }
        }
        out.extend(next.iter().cloned());
        level = next;
    }
    out
}

fn build_map<const N: usize>(st: &St, stale: bool, nk: u8) -> Box<Canary<Map<Lk, Vx, N>>> {
    let mut bx = Canary::boxed(Map::<Lk, Vx, N>::new());
    pl::tape_set(TapeMode::ForceNe, 0, nk);
    for (k, v) in st {
        bx.c.insert(Lk::new(*k, 0), Vx::new(*v));
    }
    if stale {
        for _ in st.len()..N {
            bx.c.insert(Lk::new(FILLER, 0), Vx::new(0));
        }
    }
    pl::tape_off();
    if stale {
        let q = Lk::new(FILLER, 0);
        while bx.c.remove::<Lk>(&q).is_some() {}
    }
    bx
}

fn build_set<const N: usize>(keys: &[u8], stale: bool, nk: u8) -> Box<Canary<Set<Lk, N>>> {
    let mut bx = Canary::boxed(Set::<Lk, N>::new());
    pl::tape_set(TapeMode::ForceNe, 0, nk);
    for k in keys {
        bx.c.insert(Lk::new(*k, 0));
    }
    if stale {
        for _ in keys.len()..N {
            bx.c.insert(Lk::new(FILLER, 0));
        }
    }
    pl::tape_off();
    if stale {
        let q = Lk::new(FILLER, 0);
        while bx.c.remove::<Lk>(&q) {}
    }
    bx
}

/// The other operand: `mask` selects lawful distinct keys; 0xFF = a copy of `keys` (duplicates kept).
fn other_set(mask: u8, keys: &[u8], nk: u8) -> Box<Canary<Set<Lk, M>>> {
    if mask == 0xFF {
        let ks: Vec<u8> = keys.iter().copied().take(M).collect();
        build_set::<M>(&ks, false, nk)
    } else {
        let ks: Vec<u8> = (0..nk).filter(|k| mask & (1 << k) != 0).collect();
        build_set::<M>(&ks, false, nk)
    }
}
fn other_map(mask: u8, st: &St, nk: u8) -> Box<Canary<Map<Lk, Vx, M>>> {
    if mask == 0xFF {
        let s: St = st.iter().copied().take(M).collect();
        build_map::<M>(&s, false, nk)
    } else {
        let s: St = (0..nk).filter(|k| mask & (1 << k) != 0).map(|k| (k, 0)).collect();
        build_map::<M>(&s, false, nk)
    }
}

#[derive(Clone, Copy, Debug, PartialEq, Eq)]
enum XOp {
    GetDisjoint { j: u8, keys: [u8; 4], by_q: bool },
    MapEq { mask: u8 },
    MapClone,
    IntoIter { take: u8 },
    IntoKeys { take: u8 },
    IntoValues { take: u8 },
    FromIter { len: u8, seq: [u8; 3] },
    SetInsert { k: u8 },
    SetReplace { k: u8 },
    SetContains { k: u8, by_q: bool },
    SetGet { k: u8, by_q: bool },
    SetRemove { k: u8, by_q: bool },
    SetTake { k: u8, by_q: bool },
    SetRetain { keep: u8 },
    SetClear,
    SetDrain { take: u8, forget: bool },
    SetIntoIter { take: u8 },
    SetClone,
    SetExtend { len: u8, seq: [u8; 2] },
    SetFromIter { len: u8, seq: [u8; 3] },
    /// which: 0 union 1 intersection 2 difference 3 symmetric_difference 4 `-`
    SetAlgebra { mask: u8, which: u8, fold: bool },
    /// which: 0 is_subset 1 is_superset 2 is_disjoint
    SetPred { mask: u8, which: u8 },
    SetEq { mask: u8 },
    /// a lazy set-algebra iterator (which: 0 union 1 intersection 2 difference 3 symmetric_difference),
    /// cloned and collected into a `Set<Lk, cap>`: under lying answers it may yield more items than its
    /// size_hint promised, or than the target can hold - the collection must then panic, not overrun
    SetCollect { mask: u8, which: u8, cap: u8 },
}

fn seqs(nk: u8, maxlen: usize) -> Vec<Vec<u8>> {
    let mut out = vec![vec![]];
    let mut level: Vec<Vec<u8>> = vec![vec![]];
    for _ in 0..maxlen {
        let mut next = Vec::new();
        for s in &level {
            for k in 0..nk {
                let mut t = s.clone();
                t.push(k);
                next.push(t);
            }
        }
        out.extend(next.iter().cloned());
        level = next;
    }
    out
}

fn xops(n: usize, nk: u8, jmax: usize) -> Vec<XOp> {
    let mut v = vec![XOp::MapClone, XOp::SetClear, XOp::SetClone];
    for j in 2..=jmax {
        for t in seqs(nk, j).into_iter().filter(|t| t.len() == j) {
            let mut keys = [0u8; 4];
            keys[..j].copy_from_slice(&t);
            for by_q in [false, true] {
                v.push(XOp::GetDisjoint { j: j as u8, keys, by_q });
            }
        }
    }
    let mut masks: Vec<u8> = (0..(1u16 << nk)).map(|m| m as u8).collect();
    masks.push(0xFF);
    for &mask in &masks {
        v.push(XOp::MapEq { mask });
        v.push(XOp::SetEq { mask });
        for which in 0..5 {
            v.push(XOp::SetAlgebra { mask, which, fold: false });
            if which < 4 {
                v.push(XOp::SetAlgebra { mask, which, fold: true });
            }
        }
        for which in 0..3 {
            v.push(XOp::SetPred { mask, which });
        }
        for which in 0..4 {
            for cap in 1..=3u8 {
                v.push(XOp::SetCollect { mask, which, cap });
            }
        }
    }
    for take in 0..=(n as u8) {
        v.push(XOp::IntoIter { take });
        v.push(XOp::IntoKeys { take });
        v.push(XOp::IntoValues { take });
        v.push(XOp::SetIntoIter { take });
        v.push(XOp::SetDrain { take, forget: false });
        v.push(XOp::SetDrain { take, forget: true });
    }
    for s in seqs(nk, 3) {
        let mut seq = [0u8; 3];
        seq[..s.len()].copy_from_slice(&s);
        v.push(XOp::FromIter { len: s.len() as u8, seq });
        v.push(XOp::SetFromIter { len: s.len() as u8, seq });
        if s.len() <= 2 {
            v.push(XOp::SetExtend { len: s.len() as u8, seq: [seq[0], seq[1]] });
        }
    }
    for k in 0..nk {
        v.push(XOp::SetInsert { k });
        v.push(XOp::SetReplace { k });
        for by_q in [false, true] {
            v.push(XOp::SetContains { k, by_q });
            v.push(XOp::SetGet { k, by_q });
            v.push(XOp::SetRemove { k, by_q });
            v.push(XOp::SetTake { k, by_q });
        }
    }
    for keep in 0..(1u16 << nk) {
        v.push(XOp::SetRetain { keep: keep as u8 });
    }
    v
}

/// Deviation-bounded enumeration of tapes: `run(devs)` executes one complete run and returns
/// the number of tape positions it consumed. Returns the number of runs.
fn explore_tapes(bound: u32, run: &mut dyn FnMut(u64) -> u32) -> u64 {
    fn rec(devs: u64, from: u32, depth: u32, bound: u32, run: &mut dyn FnMut(u64) -> u32, n: &mut u64) {
        let c = run(devs);
        *n += 1;
        if depth == bound {
            return;
        }
        for p in from..c.min(64) {
            rec(devs | (1u64 << p), p + 1, depth + 1, bound, run, n);
        }
    }
    let mut n = 0;
    rec(0, 0, 0, bound, run, &mut n);
    n
}

fn overlap(a: (usize, usize), b: (usize, usize)) -> bool {
    a.0 < b.0 + b.1 && b.0 < a.0 + a.1
}

fn check_refs(cx: &mut Ctx, refs: &[(usize, usize)], range: (usize, usize), together: bool) {
    for (a, sz) in refs {
        cx.check(PM, *a >= range.0 && a + sz <= range.1, || {
            format!("a reference handed out ({a:#x}, {sz} bytes) lies outside the container value {range:x?}")
        });
    }
    if together {
        for i in 0..refs.len() {
            for j in 0..i {
                cx.check(PM, !overlap(refs[i], refs[j]), || {
                    format!("two references handed out together overlap: {:x?} and {:x?}", refs[i], refs[j])
                });
            }
        }
    }
}

fn end_of_run(cx: &mut Ctx, leak_ok: bool) {
    flush_ledger(cx, PM, "at the end of the run");
    if !leak_ok {
        let live = pl::live_ids();
        cx.check(PM, live.is_empty(), || {
            let id = live[0];
            format!("object #{id} {:?} was never destroyed (every element must be destroyed exactly once)", pl::obj(id))
        });
    }
}

struct Run<'a> {
    st: &'a St,
    stale: bool,
    nk: u8,
    nv: u8,
}

/// One run of a Map-alphabet operation under tape `devs`.
fn run_mapop<const N: usize>(r: &Run, op: &MapOp, devs: u64, cx: &mut Ctx) -> u32 {
    pl::reset();
    let mut bx = build_map::<N>(r.st, r.stale, r.nk);
    let range = bx.range();
    let mut a = prepare::<Lk, Vx>(op, r.nv);
    let mut side: Side<Lk, Vx> = Side::default();
    pl::take_violations();
    pl::tape_set(TapeMode::Tape, devs, r.nk);
    let res = {
        let m = &mut bx.c;
        catch_unwind(AssertUnwindSafe(|| exec_real(m, op, &mut a, &mut side, r.nv)))
    };
    let (calls, _) = pl::tape_off();
    cx.class(if res.is_err() { "map-op:panicked" } else { "map-op:returned" });
    flush_ledger(cx, PM, "during the call");
    let together = matches!(op, MapOp::IterMutWrite { .. } | MapOp::ValuesMutWrite { .. });
    check_refs(cx, &side.refs, range, together);
    cx.check(PM, bx.intact(), || "a canary next to the container was overwritten".to_string());
    let forget = matches!(op, MapOp::Drain { forget: true, .. });
    drop(a);
    drop(side);
    flush_ledger(cx, PM, "dropping the arguments and results the caller holds");
    exercise_and_drop_map(bx, r.nk, cx, PM, false);
    end_of_run(cx, forget);
    calls
}

fn call_disjoint<Q: ?Sized + Eq, const N: usize, const JN: usize>(m: &mut Map<Lk, Vx, N>, ks: [&Q; JN]) -> Vec<(usize, usize)>
where
    Lk: Borrow<Q>,
{
    let res = m.get_disjoint_mut(ks);
    let mut refs = Vec::new();
    for (i, r) in res.into_iter().enumerate() {
        if let Some(x) = r {
            x.vd();
            x.set((i % 2) as u8);
            refs.push((x as *mut Vx as usize, std::mem::size_of::<Vx>()));
        }
    }
    refs
}

fn disjoint_j<const N: usize, const JN: usize>(m: &mut Map<Lk, Vx, N>, keys: &[u8; 4], by_q: bool, probes: &[Vec<Lk>]) -> Vec<(usize, usize)> {
    if by_q {
        let qs: Vec<LQ> = (0..JN).map(|i| LQ(keys[i])).collect();
        let ks: [&LQ; JN] = std::array::from_fn(|i| &qs[i]);
        call_disjoint::<LQ, N, JN>(m, ks)
    } else {
        let ks: [&Lk; JN] = std::array::from_fn(|i| &probes[i][keys[i] as usize]);
        call_disjoint::<Lk, N, JN>(m, ks)
    }
}

fn run_xop<const N: usize>(r: &Run, x: XOp, devs: u64, cx: &mut Ctx) -> u32 {
    pl::reset();
    let nk = r.nk;
    let keys: Vec<u8> = r.st.iter().map(|e| e.0).collect();
    let mut mapbx: Option<Box<Canary<Map<Lk, Vx, N>>>> = None;
    let mut setbx: Option<Box<Canary<Set<Lk, N>>>> = None;
    let is_set = matches!(
        x,
        XOp::SetInsert { .. }
            | XOp::SetReplace { .. }
            | XOp::SetContains { .. }
            | XOp::SetGet { .. }
            | XOp::SetRemove { .. }
            | XOp::SetTake { .. }
            | XOp::SetRetain { .. }
            | XOp::SetClear
            | XOp::SetDrain { .. }
            | XOp::SetIntoIter { .. }
            | XOp::SetClone
            | XOp::SetExtend { .. }
            | XOp::SetAlgebra { .. }
            | XOp::SetPred { .. }
            | XOp::SetEq { .. }
            | XOp::SetCollect { .. }
    );
    if is_set {
        setbx = Some(build_set::<N>(&keys, r.stale, nk));
    } else if !matches!(x, XOp::FromIter { .. } | XOp::SetFromIter { .. }) {
        mapbx = Some(build_map::<N>(r.st, r.stale, nk));
    }
    let mut leak_ok = false;
    let calls;
    macro_rules! armed {
        ($body:expr) => {{
            pl::take_violations();
            pl::tape_set(TapeMode::Tape, devs, nk);
            let res = catch_unwind(AssertUnwindSafe(|| $body));
            let (c, _) = pl::tape_off();
            calls = c;
            cx.class(if res.is_err() { "x-op:panicked" } else { "x-op:returned" });
            flush_ledger(cx, PM, "during the call");
            res
        }};
    }
    match x {
        XOp::GetDisjoint { j, keys: ks, by_q } => {
            let bx = mapbx.as_mut().unwrap();
            let range = bx.range();
            let probes: Vec<Vec<Lk>> = (0..4).map(|_| (0..8u8).map(|k| Lk::new(k, 0)).collect()).collect();
            let m = &mut bx.c;
            let res = armed!(match j {
                2 => disjoint_j::<N, 2>(m, &ks, by_q, &probes),
                3 => disjoint_j::<N, 3>(m, &ks, by_q, &probes),
                _ => disjoint_j::<N, 4>(m, &ks, by_q, &probes),
            });
            if let Ok(refs) = res {
                check_refs(cx, &refs, range, true);
            }
            drop(probes);
        }
        XOp::MapEq { mask } => {
            let o = other_map(mask, r.st, nk);
            let m = &mapbx.as_ref().unwrap().c;
            let _ = armed!(m == &o.c);
            exercise_and_drop_map(o, nk, cx, PM, false);
        }
        XOp::MapClone => {
            let m = &mapbx.as_ref().unwrap().c;
            let res = armed!(m.clone());
            if let Ok(c) = res {
                exercise_and_drop_map(Canary::boxed(c), nk, cx, PM, false);
            }
        }
        XOp::IntoIter { take } | XOp::IntoKeys { take } | XOp::IntoValues { take } => {
            let m = (*mapbx.take().unwrap()).c;
            let mut hk: Vec<Lk> = Vec::new();
            let mut hv: Vec<Vx> = Vec::new();
            let _ = armed!(match x {
                XOp::IntoIter { .. } => {
                    let mut it = m.into_iter();
                    for _ in 0..take {
                        if let Some((k, v)) = it.next() {
                            k.kd();
                            v.vd();
                            hk.push(k);
                            hv.push(v);
                        }
                    }
                }
                XOp::IntoKeys { .. } => {
                    let mut it = m.into_keys();
                    for _ in 0..take {
                        if let Some(k) = it.next() {
                            k.kd();
                            hk.push(k);
                        }
                    }
                }
                _ => {
                    let mut it = m.into_values();
                    for _ in 0..take {
                        if let Some(v) = it.next() {
                            v.vd();
                            hv.push(v);
                        }
                    }
                }
            });
            drop(hk);
            drop(hv);
        }
        XOp::FromIter { len, seq } => {
            let items: Vec<(Lk, Vx)> = (0..len as usize).map(|i| (Lk::new(seq[i], 0), Vx::new(0))).collect();
            let res = armed!(items.into_iter().collect::<Map<Lk, Vx, N>>());
            if let Ok(c) = res {
                exercise_and_drop_map(Canary::boxed(c), nk, cx, PM, false);
            }
        }
        XOp::SetFromIter { len, seq } => {
            let items: Vec<Lk> = (0..len as usize).map(|i| Lk::new(seq[i], 0)).collect();
            let res = armed!(items.into_iter().collect::<Set<Lk, N>>());
            if let Ok(c) = res {
                exercise_and_drop_set(Canary::boxed(c), nk, cx, PM, false);
            }
        }
        XOp::SetInsert { k } => {
            let s = &mut setbx.as_mut().unwrap().c;
            let arg = Lk::new(k, 0);
            let _ = armed!(s.insert(arg));
        }
        XOp::SetReplace { k } => {
            let s = &mut setbx.as_mut().unwrap().c;
            let arg = Lk::new(k, 0);
            let res = armed!(s.replace(arg));
            if let Ok(Some(old)) = res {
                old.kd();
                drop(old);
            }
        }
        XOp::SetContains { k, by_q } => {
            let s = &setbx.as_ref().unwrap().c;
            let probe = Lk::new(k, 0);
            let _ = armed!(if by_q { s.contains(&LQ(k)) } else { s.contains::<Lk>(&probe) });
        }
        XOp::SetGet { k, by_q } => {
            let bx = setbx.as_ref().unwrap();
            let range = bx.range();
            let s = &bx.c;
            let probe = Lk::new(k, 0);
            let res = armed!({
                let g = if by_q { s.get(&LQ(k)) } else { s.get::<Lk>(&probe) };
                g.map(|e| {
                    e.kd();
                    (e as *const Lk as usize, std::mem::size_of::<Lk>())
                })
            });
            if let Ok(Some(rf)) = res {
                check_refs(cx, &[rf], range, false);
            }
        }
        XOp::SetRemove { k, by_q } => {
            let s = &mut setbx.as_mut().unwrap().c;
            let probe = Lk::new(k, 0);
            let _ = armed!(if by_q { s.remove(&LQ(k)) } else { s.remove::<Lk>(&probe) });
        }
        XOp::SetTake { k, by_q } => {
            let s = &mut setbx.as_mut().unwrap().c;
            let probe = Lk::new(k, 0);
            let res = armed!(if by_q { s.take(&LQ(k)) } else { s.take::<Lk>(&probe) });
            if let Ok(Some(old)) = res {
                old.kd();
                drop(old);
            }
        }
        XOp::SetRetain { keep } => {
            let s = &mut setbx.as_mut().unwrap().c;
            let _ = armed!(s.retain(|k| keep & (1 << k.kd().k) != 0));
        }
        XOp::SetClear => {
            let s = &mut setbx.as_mut().unwrap().c;
            let _ = armed!(s.clear());
        }
        XOp::SetDrain { take, forget } => {
            let s = &mut setbx.as_mut().unwrap().c;
            let mut held: Vec<Lk> = Vec::new();
            let _ = armed!({
                let mut d = s.drain();
                for _ in 0..take {
                    if let Some(k) = d.next() {
                        k.kd();
                        held.push(k);
                    }
                }
                if forget {
                    std::mem::forget(d);
                }
            });
            leak_ok = forget;
            drop(held);
        }
        XOp::SetIntoIter { take } => {
            let s = (*setbx.take().unwrap()).c;
            let mut held: Vec<Lk> = Vec::new();
            let _ = armed!({
                let mut it = s.into_iter();
                for _ in 0..take {
                    if let Some(k) = it.next() {
                        k.kd();
                        held.push(k);
                    }
                }
            });
            drop(held);
        }
        XOp::SetClone => {
            let s = &setbx.as_ref().unwrap().c;
            let res = armed!(s.clone());
            if let Ok(c) = res {
                exercise_and_drop_set(Canary::boxed(c), nk, cx, PM, false);
            }
        }
        XOp::SetExtend { len, seq } => {
            let s = &mut setbx.as_mut().unwrap().c;
            let items: Vec<Lk> = (0..len as usize).map(|i| Lk::new(seq[i], 0)).collect();
            let _ = armed!(s.extend(items));
        }
        XOp::SetAlgebra { mask, which, fold } => {
            let o = other_set(mask, &keys, nk);
            let bx = setbx.as_ref().unwrap();
            let (lr, or) = (bx.range(), o.range());
            let s = &bx.c;
            let res = armed!({
                let mut refs: Vec<(usize, usize)> = Vec::new();
                let mut see = |e: &Lk| {
                    e.kd();
                    refs.push((e as *const Lk as usize, std::mem::size_of::<Lk>()));
                };
                let mut made: Option<Set<Lk, N>> = None;
                match (which, fold) {
                    (0, false) => s.union(&o.c).for_each_next(&mut see),
                    (0, true) => s.union(&o.c).fold((), |(), e| see(e)),
                    (1, false) => s.intersection(&o.c).for_each_next(&mut see),
                    (1, true) => s.intersection(&o.c).fold((), |(), e| see(e)),
                    (2, false) => s.difference(&o.c).for_each_next(&mut see),
                    (2, true) => s.difference(&o.c).fold((), |(), e| see(e)),
                    (3, false) => s.symmetric_difference(&o.c).for_each_next(&mut see),
                    (3, true) => s.symmetric_difference(&o.c).fold((), |(), e| see(e)),
                    _ => made = Some(s - &o.c),
                }
                (refs, made)
            });
            if let Ok((refs, made)) = res {
                for rf in &refs {
                    let inside = |g: (usize, usize)| rf.0 >= g.0 && rf.0 + rf.1 <= g.1;
                    cx.check(PM, inside(lr) || inside(or), || format!("a set-algebra iterator yielded a reference {rf:x?} outside both operands"));
                }
                if let Some(c) = made {
                    exercise_and_drop_set(Canary::boxed(c), nk, cx, PM, false);
                }
            }
            exercise_and_drop_set(o, nk, cx, PM, false);
        }
        XOp::SetPred { mask, which } => {
            let o = other_set(mask, &keys, nk);
            let s = &setbx.as_ref().unwrap().c;
            let _ = armed!(match which {
                0 => s.is_subset(&o.c),
                1 => s.is_superset(&o.c),
                _ => s.is_disjoint(&o.c),
            });
            exercise_and_drop_set(o, nk, cx, PM, false);
        }
        XOp::SetEq { mask } => {
            let o = other_set(mask, &keys, nk);
            let s = &setbx.as_ref().unwrap().c;
            let _ = armed!(s == &o.c);
            exercise_and_drop_set(o, nk, cx, PM, false);
        }
        XOp::SetCollect { mask, which, cap } => {
            let o = other_set(mask, &keys, nk);
            let s = &setbx.as_ref().unwrap().c;
            macro_rules! collect_into {
                ($C:literal) => {{
                    let res = armed!(match which {
                        0 => Canary::boxed(s.union(&o.c).cloned().collect::<Set<Lk, $C>>()),
                        1 => Canary::boxed(s.intersection(&o.c).cloned().collect::<Set<Lk, $C>>()),
                        2 => Canary::boxed(s.difference(&o.c).cloned().collect::<Set<Lk, $C>>()),
                        _ => Canary::boxed(s.symmetric_difference(&o.c).cloned().collect::<Set<Lk, $C>>()),
                    });
                    if let Ok(c) = res {
                        cx.check(PM, c.intact(), || "a canary next to the collected set was overwritten".to_string());
                        exercise_and_drop_set(c, nk, cx, PM, false);
                    }
                }};
            }
            match cap {
                1 => collect_into!(1),
                2 => collect_into!(2),
                _ => collect_into!(3),
            }
            exercise_and_drop_set(o, nk, cx, PM, false);
        }
    }
    if let Some(bx) = mapbx {
        cx.check(PM, bx.intact(), || "a canary next to the container was overwritten".to_string());
        exercise_and_drop_map(bx, nk, cx, PM, false);
    }
    if let Some(bx) = setbx {
        cx.check(PM, bx.intact(), || "a canary next to the container was overwritten".to_string());
        exercise_and_drop_set(bx, nk, cx, PM, false);
    }
    end_of_run(cx, leak_ok);
    calls
}

/// `for_each` through explicit `next()` calls (so that `next` and `fold` are both exercised).
trait ForEachNext: Iterator + Sized {
    fn for_each_next(mut self, f: &mut dyn FnMut(Self::Item)) {
        while let Some(x) = self.next() {
            f(x);
        }
        // a fused iterator keeps returning None
        let _ = self.next();
    }
}
impl<I: Iterator> ForEachNext for I {}

fn tape_text(devs: u64) -> String {
    let p: Vec<String> = (0..64).filter(|i| (devs >> i) & 1 == 1).map(|i| i.to_string()).collect();
    format!("tape: answers #[{}] deviate from the lawful answer", p.join(","))
}

fn run_n<const N: usize>(rep: &mut EngineReport, nk: u8, nv: u8, bound: u32, jmax: usize, threads: usize, replay: Option<(usize, u32, u64)>) -> i32 {
    let states = all_states(N, nk, nv);
    let mops: Vec<MapOp> = alphabet::<Lk, Vx>(N, nk, nv, Alpha::Full)
        .into_iter()
        .filter(|o| !matches!(o, MapOp::InsertUnchecked { .. }))
        .collect();
    let xs = xops(N, nk, jmax);
    let config = format!(
        "liar sweep on Map<Lk,Vx,{N}>/Set<Lk,{N}> keys={nk} values={nv} (duplicate keys included), <= {} deviations per operation, get_disjoint_mut up to J={jmax}",
        if bound >= 64 { "all".to_string() } else { bound.to_string() }
    );
    let nstates = states.len() * 2;
    let run_one = |si: usize, oi: u32, devs: u64, cx: &mut Ctx| -> u32 {
        let r = Run { st: &states[si / 2], stale: si % 2 == 1, nk, nv };
        cx.here.path = vec![format!("state {:?} built through the real API under an `==` that answers false{}", r.st, if r.stale { "; dead slots hold stale copies of destroyed elements" } else { "" })];
        cx.here.path_idx = vec![si as u32];
        cx.here.op_idx = oi;
        cx.here.extra = tape_text(devs);
        if (oi as usize) < mops.len() {
            let op = mops[oi as usize];
            if let MapOp::Drain { take, .. } = op {
                if take as usize > r.st.len() + 1 {
                    return 0;
                }
            }
            cx.here.op = op.to_string();
            run_mapop::<N>(&r, &op, devs, cx)
        } else {
            let x = xs[oi as usize - mops.len()];
            cx.here.op = format!("{x:?}");
            run_xop::<N>(&r, x, devs, cx)
        }
    };
    if let Some((si, oi, devs)) = replay {
        let mut outs = Vec::new();
        for _ in 0..2 {
            let mut cx = Ctx::new(rep.cx.enabled);
            cx.here.config = config.clone();
            let calls = run_one(si, oi, devs, &mut cx);
            let v: Vec<J> = cx.best.iter().flatten().map(|b| b.to_json()).collect();
            outs.push((calls, v));
        }
        let same = outs[0].0 == outs[1].0 && outs[0].1.len() == outs[1].1.len();
        let (calls, v) = outs.remove(0);
        let n = v.len();
        println!("{}", J::obj().set("config", config).set("deterministic", same).set("tape_positions_consumed", calls).set("violations", J::Arr(v)).dump());
        return if !same { 2 } else if n > 0 { 1 } else { 0 };
    }
    let mut cx = rep.cx.fork();
    cx.here.config = config.clone();
    let t0 = std::time::Instant::now();
    let tallies = std::sync::Mutex::new((0u64, 0u64, 0u32));
    let nops = mops.len() + xs.len();
    par_states(nstates, threads, &mut cx, |si, lcx| {
        let mut runs = 0u64;
        let mut lied = 0u64;
        let mut maxc = 0u32;
        for oi in 0..nops as u32 {
            let mut first = true;
            let mut f = |devs: u64| -> u32 {
                crumb(&format!("state#{si} op#{oi} devs={devs:#x}"));
                let c = run_one(si, oi, devs, lcx);
                lcx.evaluations += 1;
                if devs != 0 {
                    lied += 1;
                    lcx.nontrivial += 1;
                }
                if c > maxc {
                    maxc = c;
                }
                if first && c > 0 && devs != 0 {
                    first = false;
                    let (p, o, e) = (lcx.here.path.clone(), lcx.here.op.clone(), lcx.here.extra.clone());
                    lcx.sample(|| J::obj().set("state", p).set("op", o).set("tape", e).set("comparisons_and_borrows_made", c));
                }
                c
            };
            runs += explore_tapes(bound, &mut f);
        }
        let mut g = tallies.lock().unwrap();
        g.0 += runs;
        g.1 += lied;
        g.2 = g.2.max(maxc);
    });
    let (runs, lied, maxc) = *tallies.lock().unwrap();
    if maxc > 64 {
        rep.caps_hit.push(format!("{config}: an operation made {maxc} comparisons; deviations were placed among the first 64 only"));
    }
    if lied == 0 {
        cx.machinery("vacuity: no run with a deviating answer".into());
    }
    rep.configs.push(
        J::obj()
            .set("config", config)
            .set("states", nstates)
            .set("operations_per_state", nops)
            .set("runs", runs)
            .set("runs_with_at_least_one_lie", lied)
            .set("max_comparisons_in_one_operation", maxc)
            .set("wall_s", t0.elapsed().as_secs_f64()),
    );
    rep.states += nstates as u64;
    rep.transitions += runs;
    rep.cx.merge(cx);
    0
}

fn main() {
    let args = Args::from_env();
    silence_panics();
    install_crash_handler(args.get("crumb"));
    let mut rep = EngineReport::new("liar_mc", args.props());
    let ns = args.list_usize("n", &[1, 2, 3]);
    let nk = args.usize("k", 2) as u8;
    let nv = args.usize("v", 1) as u8;
    let bound = args.usize("dev", 2) as u32;
    let jmax = args.usize("j", 3).clamp(2, 4);
    let threads = args.threads();
    if let Some(p) = args.get("replay-path") {
        let si = mc::bfs::parse_idx_list(p).first().copied().unwrap_or(0) as usize;
        let oi = args.get("replay-op").and_then(|x| x.parse().ok()).unwrap_or(0);
        let devs = args
            .get("replay-extra")
            .map(|e| {
                let inner = e.split('[').nth(1).and_then(|r| r.split(']').next()).unwrap_or("");
                inner.split(',').filter_map(|t| t.trim().parse::<u32>().ok()).fold(0u64, |a, p| a | (1u64 << p))
            })
            .unwrap_or(0);
        let n = ns[0];
        let code = mc::with_n!(n, run_n::<>(&mut rep, nk, nv, bound, jmax, threads, Some((si, oi, devs))));
        std::process::exit(code);
    }
    for n in ns {
        mc::with_n!(n, run_n::<>(&mut rep, nk, nv, bound, jmax, threads, None));
    }
    std::process::exit(rep.finish(args.get("out")));
}
