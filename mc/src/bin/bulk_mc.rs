//! bulk_mc (C16, C03): every item sequence of length 0..=L over (key, value) with arbitrary
//! repetition patterns, for capacities N = 0..; entry points Map::from_iter/collect,
//! Map::from([_; N]), Set::from_iter, Set::from([_; N]), Set::extend (owned, from every
//! prefix-built set) and Extend<&T> (Copy elements). Oracle: the left fold of single inserts
//! on the reference model (last value wins, FIRST key object kept, repeats consume no
//! capacity), panic exactly when the (N+1)-th distinct key arrives, source pulled exactly once
//! front to back (len+1 calls, never after None), ledger balanced.

use mc::bfs::par_states;
use mc::ctx::*;
use mc::json::J;
use mc::mapsys::{check_live, flush_ledger};
use mc::payload::{self as pl, Kx, Vx, KD, VD};
use mc::survivor::Src;
use micromap::{Map, Set};
use std::collections::BTreeMap;
use std::panic::{catch_unwind, AssertUnwindSafe};

const PM: PMask = C16;

/// item code: k + nk * v
fn decode(mut idx: usize, len: usize, base: usize) -> Vec<usize> {
    let mut s = vec![0; len];
    for i in (0..len).rev() {
        s[i] = idx % base;
        idx /= base;
    }
    s
}

struct Fold {
    m: BTreeMap<u8, (KD, VD)>,
    /// index of the item at which the (cap+1)-th distinct key arrives
    overflow_at: Option<usize>,
}

fn fold(items: &[(KD, VD)], cap: usize) -> Fold {
    let mut m: BTreeMap<u8, (KD, VD)> = BTreeMap::new();
    for (i, (k, v)) in items.iter().enumerate() {
        if let Some(e) = m.get_mut(&k.k) {
            e.1 = *v;
        } else if m.len() >= cap {
            return Fold { m, overflow_at: Some(i) };
        } else {
            m.insert(k.k, (*k, *v));
        }
    }
    Fold { m, overflow_at: None }
}

fn judge_map<const N: usize>(cx: &mut Ctx, what: &str, res: std::thread::Result<Map<Kx, Vx, N>>, f: &Fold, pulls: Option<(u32, bool)>, n_items: usize) {
    let overflow = f.overflow_at.is_some();
    cx.class(&format!("{what}:{}", if overflow { "overflow" } else { "fits" }));
    match res {
        Err(_) => {
            cx.check(PM | C03, overflow, || format!("{what}: panicked although the items hold only {} distinct keys for capacity {N}", f.m.len()));
        }
        Ok(m) => {
            cx.check(PM | C03, !overflow, || format!("{what}: did not panic although more than {N} distinct keys were supplied"));
            let bx = Canary::boxed(m);
            let mut got: Vec<(KD, VD)> = bx.c.iter().map(|(k, v)| (k.desc(), v.desc())).collect();
            got.sort();
            let mut want: Vec<(KD, VD)> = f.m.values().copied().collect();
            want.sort();
            let codes = |x: &[(KD, VD)]| x.iter().map(|(k, v)| (k.k, v.v)).collect::<Vec<_>>();
            if !overflow {
                cx.check(PM, codes(&got) == codes(&want), || format!("{what}: result is {got:?} but inserting one by one gives {want:?}"));
                if codes(&got) == codes(&want) {
                    cx.check(PM | C12, got.iter().map(|e| e.0).collect::<Vec<_>>() == want.iter().map(|e| e.0).collect::<Vec<_>>(), || {
                        format!("{what}: stored key objects {got:?}, but the first key object of each key must be kept: {want:?}")
                    });
                    cx.check(PM | C02, got == want, || format!("{what}: stored value objects {got:?}, expected {want:?}"));
                }
            }
            mc::mapsys::invariants(&bx.c, cx, PM);
            cx.check(PM | C03, bx.intact(), || "canary overwritten".to_string());
            drop(bx);
        }
    }
    if let Some((calls, after_none)) = pulls {
        let want = match f.overflow_at {
            Some(i) => i as u32 + 1,
            None => n_items as u32 + 1,
        };
        cx.check(PM, calls == want, || format!("{what}: the source was pulled {calls} times, expected {want}"));
        cx.check(PM, !after_none, || format!("{what}: the source was pulled again after it had returned None"));
    }
    flush_ledger(cx, PM | C02, what);
    check_live(cx, PM | C02, Vec::new(), &[], &format!("{what}: after dropping the result"));
}

fn judge_set<const N: usize>(cx: &mut Ctx, what: &str, res: std::thread::Result<Set<Kx, N>>, f: &Fold, pulls: Option<(u32, bool)>, n_items: usize) {
    let overflow = f.overflow_at.is_some();
    cx.class(&format!("{what}:{}", if overflow { "overflow" } else { "fits" }));
    match res {
        Err(_) => {
            cx.check(PM | C03, overflow, || format!("{what}: panicked although the items hold only {} distinct elements for capacity {N}", f.m.len()));
        }
        Ok(s) => {
            cx.check(PM | C03, !overflow, || format!("{what}: did not panic although more than {N} distinct elements were supplied"));
            let bx = Canary::boxed(s);
            let mut got: Vec<KD> = bx.c.iter().map(|k| k.desc()).collect();
            got.sort();
            let mut want: Vec<KD> = f.m.values().map(|e| e.0).collect();
            want.sort();
            if !overflow {
                let codes = |x: &[KD]| x.iter().map(|k| k.k).collect::<Vec<_>>();
                cx.check(PM, codes(&got) == codes(&want) && bx.c.len() == want.len(), || format!("{what}: result is {got:?} (len {}) but inserting one by one gives {want:?}", bx.c.len()));
                if codes(&got) == codes(&want) {
                    cx.check(PM | C12, got == want, || format!("{what}: stored element objects {got:?}, but the first object of each value must be kept: {want:?}"));
                }
            }
            mc::setsys::invariants(&bx.c, cx, PM);
            cx.check(PM | C03, bx.intact(), || "canary overwritten".to_string());
            drop(bx);
        }
    }
    if let Some((calls, after_none)) = pulls {
        let want = match f.overflow_at {
            Some(i) => i as u32 + 1,
            None => n_items as u32 + 1,
        };
        cx.check(PM, calls == want, || format!("{what}: the source was pulled {calls} times, expected {want}"));
        cx.check(PM, !after_none, || format!("{what}: the source was pulled again after it had returned None"));
    }
    flush_ledger(cx, PM | C02, what);
    check_live(cx, PM | C02, Vec::new(), &[], &format!("{what}: after dropping the result"));
}

fn mk_items(seq: &[usize], nk: usize) -> Vec<(Kx, Vx)> {
    seq.iter().enumerate().map(|(i, c)| (Kx::new((c % nk) as u8, (i % 2) as u8), Vx::new((c / nk) as u8))).collect()
}

fn one_seq<const N: usize>(cx: &mut Ctx, seq: &[usize], nk: usize) {
    cx.evaluations += 1;
    if !seq.is_empty() {
        cx.nontrivial += 1;
    }
    // Map::from_iter, for every (honest) size_hint behaviour of the source
    for hint in 0..mc::survivor::HINTS {
        pl::reset();
        cx.here.op = format!("Map::from_iter (source size_hint kind {hint})");
        let items = mk_items(seq, nk);
        let ds: Vec<(KD, VD)> = items.iter().map(|(k, v)| (k.desc(), v.desc())).collect();
        let f = fold(&ds, N);
        let (src, calls) = Src::with_hint(items, hint);
        let res = catch_unwind(AssertUnwindSafe(|| src.collect::<Map<Kx, Vx, N>>()));
        judge_map::<N>(cx, "Map::from_iter", res, &f, Some(calls.get()), seq.len());
    }
    // Set::from_iter (values ignored)
    for hint in 0..mc::survivor::HINTS {
        pl::reset();
        cx.here.op = format!("Set::from_iter (source size_hint kind {hint})");
        let items: Vec<Kx> = seq.iter().enumerate().map(|(i, c)| Kx::new((c % nk) as u8, (i % 2) as u8)).collect();
        let ds: Vec<(KD, VD)> = items.iter().map(|k| (k.desc(), VD { id: pl::NOID, v: 0 })).collect();
        let f = fold(&ds, N);
        let (src, calls) = Src::with_hint(items, hint);
        let res = catch_unwind(AssertUnwindSafe(|| src.collect::<Set<Kx, N>>()));
        judge_set::<N>(cx, "Set::from_iter", res, &f, Some(calls.get()), seq.len());
    }
    // arrays of exactly N items
    if seq.len() == N {
        {
            pl::reset();
            cx.here.op = "Map::from([_; N])".into();
            let mut items = mk_items(seq, nk);
            let ds: Vec<(KD, VD)> = items.iter().map(|(k, v)| (k.desc(), v.desc())).collect();
            let f = fold(&ds, N);
            let mut it = items.drain(..);
            let arr: [(Kx, Vx); N] = std::array::from_fn(|_| it.next().unwrap());
            drop(it);
            let res = catch_unwind(AssertUnwindSafe(|| Map::<Kx, Vx, N>::from(arr)));
            judge_map::<N>(cx, "Map::from(array)", res, &f, None, seq.len());
        }
        {
            pl::reset();
            cx.here.op = "Set::from([_; N])".into();
            let mut items: Vec<Kx> = seq.iter().enumerate().map(|(i, c)| Kx::new((c % nk) as u8, (i % 2) as u8)).collect();
            let ds: Vec<(KD, VD)> = items.iter().map(|k| (k.desc(), VD { id: pl::NOID, v: 0 })).collect();
            let f = fold(&ds, N);
            let mut it = items.drain(..);
            let arr: [Kx; N] = std::array::from_fn(|_| it.next().unwrap());
            drop(it);
            let res = catch_unwind(AssertUnwindSafe(|| Set::<Kx, N>::from(arr)));
            judge_set::<N>(cx, "Set::from(array)", res, &f, None, seq.len());
        }
    }
    // Set::extend: the first `cut` items build the set one by one, the rest is extended in bulk;
    // also Extend<&T> on a plain Copy element type
    for cut_hint in 0..(seq.len() + 1) * mc::survivor::HINTS as usize {
        let (cut, hint) = (cut_hint / mc::survivor::HINTS as usize, (cut_hint % mc::survivor::HINTS as usize) as u8);
        pl::reset();
        cx.here.op = format!("Set::extend (first {cut} items inserted singly; source size_hint kind {hint})");
        let items: Vec<Kx> = seq.iter().enumerate().map(|(i, c)| Kx::new((c % nk) as u8, (i % 2) as u8)).collect();
        let ds: Vec<(KD, VD)> = items.iter().map(|k| (k.desc(), VD { id: pl::NOID, v: 0 })).collect();
        let f = fold(&ds, N);
        if f.overflow_at.is_some_and(|i| i < cut) {
            continue;
        }
        let mut items = items;
        let rest = items.split_off(cut);
        let mut s = Set::<Kx, N>::new();
        for k in items {
            s.insert(k);
        }
        let n_rest = rest.len();
        let (src, calls) = Src::with_hint(rest, hint);
        let res = catch_unwind(AssertUnwindSafe(move || {
            s.extend(src);
            s
        }));
        let pulls = calls.get();
        let f2 = Fold { m: f.m.clone(), overflow_at: f.overflow_at.map(|i| i - cut) };
        judge_set::<N>(cx, "Set::extend", res, &f2, Some(pulls), n_rest);
        if hint != 0 {
            continue;
        }
        // Extend<&T> (T: Copy) with an element type whose `==` ignores a tag: item i carries tag i % 2, exactly
        // like the owned items above, so the fold's stored-key identities apply. The set stays with the caller:
        // after an overflow panic it must hold what inserting one by one had stored up to the rejected item.
        #[derive(Clone, Copy, Debug)]
        struct Ct {
            k: u8,
            tag: u8,
        }
        impl PartialEq for Ct {
            fn eq(&self, o: &Ct) -> bool {
                self.k == o.k
            }
        }
        impl Eq for Ct {}
        let plain: Vec<Ct> = seq.iter().enumerate().map(|(i, c)| Ct { k: (c % nk) as u8, tag: (i % 2) as u8 }).collect();
        let mut ps = Set::<Ct, N>::new();
        for k in &plain[..cut] {
            ps.insert(*k);
        }
        let r = catch_unwind(AssertUnwindSafe(|| ps.extend(plain[cut..].iter())));
        // Extend<&T> with a zero-sized T: any number of items is at most one element
        {
            #[derive(Clone, Copy, PartialEq, Eq, Debug)]
            struct Unit;
            let n_items = seq.len() - cut;
            let units = vec![Unit; n_items];
            let mut zs = Set::<Unit, N>::new();
            let pre = catch_unwind(AssertUnwindSafe(|| {
                if cut > 0 {
                    zs.insert(Unit);
                }
                zs
            }));
            if let Ok(mut zs) = pre {
                let before = zs.len();
                let rz = catch_unwind(AssertUnwindSafe(|| {
                    zs.extend(units.iter());
                    zs
                }));
                let want = usize::from(before > 0 || n_items > 0);
                match rz {
                    Ok(zs) => cx.check(PM | C03, want <= N && zs.len() == want && zs.iter().count() == want, || {
                        format!("Extend<&T> with a zero-sized T: {n_items} items into a set of {before} gave len {} (capacity {N}), expected {want}", zs.len())
                    }),
                    Err(_) => cx.check(PM | C03, want > N, || format!("Extend<&T> with a zero-sized T: panicked although {want} element fits capacity {N}")),
                };
            }
            let mut zo = Set::<(), N>::new();
            let ro = catch_unwind(AssertUnwindSafe(|| {
                zo.extend(std::iter::repeat(()).take(n_items));
                zo.len()
            }));
            let want = usize::from(n_items > 0);
            match ro {
                Ok(l) => cx.check(PM | C03, want <= N && l == want, || format!("Extend<T> with T = (): {n_items} items gave len {l}, expected {want}")),
                Err(_) => cx.check(PM | C03, want > N, || "Extend<T> with T = (): panicked although the element fits".to_string()),
            };
        }
        {
            cx.check(PM | C03 | C07, r.is_err() == f.overflow_at.is_some(), || {
                format!("Extend<&T>: {} although the fold of single inserts {}", if r.is_err() { "panicked" } else { "returned" }, if f.overflow_at.is_some() { "overflows" } else { "fits" })
            });
            // (on overflow `f.m` is the state at the rejected item: the survivor must hold exactly that)
            let mut got: Vec<(u8, u8)> = ps.iter().map(|c| (c.k, c.tag)).collect();
            got.sort_unstable();
            let want: Vec<(u8, u8)> = f.m.values().map(|(k, _)| (k.k, k.tag)).collect();
            let codes = |x: &[(u8, u8)]| x.iter().map(|e| e.0).collect::<Vec<u8>>();
            let sem = codes(&got) == codes(&want) && ps.len() == want.len();
            cx.check(PM | C03 | C05 | C07, sem, || format!("Extend<&T>: the set holds {got:?} (element, tag) but inserting one by one gives {want:?}{}", if r.is_err() { " up to the rejected item" } else { "" }));
            if sem {
                cx.check(C12 | PM, got == want, || format!("Extend<&T>: stored element objects {got:?} (element, tag), but inserting one by one keeps the first of equal elements: {want:?}"));
                for (k, t) in &want {
                    let g = ps.get(&Ct { k: *k, tag: 9 }).map(|c| c.tag);
                    cx.check(C12 | PM, g == Some(*t), || format!("Extend<&T>: Set::get({k}) exposes tag {g:?}, the stored element has tag {t}"));
                }
            }
        }
    }
    own_sources::<N>(cx, seq, nk);
    cx.sample(|| J::obj().set("items", format!("{:?}", seq.iter().map(|c| (c % nk, c / nk)).collect::<Vec<_>>())).set("capacity", N));
}

/// The crate's own consuming iterators and drains as the *source* of a bulk operation: the first
/// `cut` items build the destination singly, the rest goes into a second container (capacity 8)
/// whose into_iter / into_keys / into_values / drain feeds Set::extend, Set::from_iter or
/// Map::from_iter - including the case where the destination overflows half way through the source
/// (the container's own panic unwinding through the source's iteration methods). Oracle: the fold
/// of single inserts over the source's iteration order; every object destroyed exactly once.
fn own_sources<const N: usize>(cx: &mut Ctx, seq: &[usize], nk: usize) {
    const M: usize = 8;
    for cut in 0..=seq.len() {
        for kind in 0..7u8 {
            pl::reset();
            let name = ["Set::extend(Set::into_iter())", "Set::extend(Map::into_keys())", "Set::extend(Map::into_values())", "Set::extend(Set::drain())",
                "Set::from_iter(Set::into_iter())", "Map::from_iter(Map::into_iter())", "Map::from_iter(Map::drain())"][kind as usize];
            cx.here.op = format!("{name} (first {cut} items inserted singly)");
            let items = mk_items(seq, nk);
            let ds: Vec<(KD, VD)> = items.iter().map(|(k, v)| (k.desc(), v.desc())).collect();
            if fold(&ds[..cut], N).overflow_at.is_some() || (kind >= 4 && cut > 0) {
                continue;
            }
            let mut items = items;
            let rest = items.split_off(cut);
            let map_src = matches!(kind, 1 | 5 | 6);
            // the source container: distinct keys of `rest` (first object kept, last value wins)
            let build_src = |rest: Vec<(Kx, Vx)>| {
                let mut src_map = Map::<Kx, Vx, M>::new();
                let mut src_set = Set::<Kx, M>::new();
                let mut src_vals = Map::<u8, Kx, M>::new();
                for (i, (k, v)) in rest.into_iter().enumerate() {
                    if map_src {
                        src_map.insert(k, v);
                    } else if kind == 2 {
                        src_vals.insert(i as u8, k);
                    } else {
                        src_set.insert(k);
                    }
                }
                (src_map, src_set, src_vals)
            };
            let stored = |src_map: &Map<Kx, Vx, M>, src_set: &Set<Kx, M>, src_vals: &Map<u8, Kx, M>| -> Vec<(KD, VD)> {
                if map_src {
                    src_map.iter().map(|(k, v)| (k.desc(), v.desc())).collect()
                } else if kind == 2 {
                    src_vals.values().map(|k| (k.desc(), VD { id: pl::NOID, v: 0 })).collect()
                } else {
                    src_set.iter().map(|k| (k.desc(), VD { id: pl::NOID, v: 0 })).collect()
                }
            };
            // The order in which the consuming iterator yields is its own business (C10 judges that it
            // yields the contents): learn it from a first, identically built copy stepped with next(),
            // as a permutation of the borrowing order, and apply it to the copy that is the real source.
            let perm: Vec<usize> = {
                let (mut a_map, mut a_set, a_vals) = build_src(mk_items(seq, nk).split_off(cut));
                let la = stored(&a_map, &a_set, &a_vals);
                let ca: Vec<u32> = match kind {
                    0 | 4 => a_set.into_iter().map(|k| k.id()).collect(),
                    1 => a_map.into_keys().map(|k| k.id()).collect(),
                    2 => a_vals.into_values().map(|k| k.id()).collect(),
                    3 => a_set.drain().map(|k| k.id()).collect(),
                    5 => a_map.into_iter().map(|(k, _)| k.id()).collect(),
                    _ => a_map.drain().map(|(k, _)| k.id()).collect(),
                };
                ca.iter().filter_map(|id| la.iter().position(|e| e.0.id == *id)).collect()
            };
            let (mut src_map, mut src_set, src_vals) = build_src(rest);
            let lb = stored(&src_map, &src_set, &src_vals);
            if perm.len() != lb.len() {
                cx.violate(C10 | C02, format!("{name}: the source container yields {} items by value but stores {}", perm.len(), lb.len()));
                continue;
            }
            let yielded: Vec<(KD, VD)> = perm.iter().map(|i| lb[*i]).collect();
            let mut all: Vec<(KD, VD)> = ds[..cut].to_vec();
            all.extend(yielded.iter().copied());
            let f = fold(&all, N);
            let f2 = Fold { m: f.m.clone(), overflow_at: f.overflow_at.map(|i| i - cut) };
            cx.evaluations += 1;
            if kind < 5 {
                let mut s = Set::<Kx, N>::new();
                for (k, _) in items {
                    s.insert(k);
                }
                let res = catch_unwind(AssertUnwindSafe(move || {
                    match kind {
                        0 => s.extend(src_set),
                        1 => s.extend(src_map.into_keys()),
                        2 => s.extend(src_vals.into_values()),
                        3 => {
                            s.extend(src_set.drain());
                            assert!(src_set.is_empty() && src_set.iter().next().is_none(), "the drained source is not empty");
                        }
                        _ => return src_set.into_iter().collect::<Set<Kx, N>>(),
                    }
                    s
                }));
                judge_set::<N>(cx, name, res, &f2, None, yielded.len());
            } else {
                drop(items);
                let res = catch_unwind(AssertUnwindSafe(move || {
                    if kind == 5 {
                        src_map.into_iter().collect::<Map<Kx, Vx, N>>()
                    } else {
                        let m = src_map.drain().collect::<Map<Kx, Vx, N>>();
                        assert!(src_map.is_empty(), "the drained source is not empty");
                        m
                    }
                }));
                judge_map::<N>(cx, name, res, &f2, None, yielded.len());
            }
        }
    }
}

fn run_n<const N: usize>(rep: &mut EngineReport, nk: usize, nv: usize, maxlen: usize, threads: usize, replay: Option<Vec<u32>>) -> i32 {
    let base = nk * nv;
    let config = format!("bulk construction into capacity {N}: every sequence of length <= {maxlen} over {nk} keys x {nv} values");
    if let Some(p) = replay {
        let seq: Vec<usize> = p.iter().map(|x| *x as usize).collect();
        let mut cx = Ctx::new(rep.cx.enabled);
        cx.here.config = config.clone();
        one_seq::<N>(&mut cx, &seq, nk);
        let v: Vec<J> = cx.best.iter().flatten().map(|b| b.to_json()).collect();
        let n = v.len();
        println!("{}", J::obj().set("config", config).set("violations", J::Arr(v)).dump());
        return i32::from(n > 0);
    }
    let mut cx = rep.cx.fork();
    cx.here.config = config.clone();
    let t0 = std::time::Instant::now();
    let mut total = 0usize;
    for len in 0..=maxlen {
        let n = base.pow(len as u32);
        total += n;
        par_states(n, threads, &mut cx, |i, lcx| {
            let seq = decode(i, len, base);
            lcx.here.path = seq.iter().map(|c| format!("(k{}, v{})", c % nk, c / nk)).collect();
            lcx.here.path_idx = seq.iter().map(|x| *x as u32).collect();
            lcx.here.op_idx = 0;
            one_seq::<N>(lcx, &seq, nk);
        });
    }
    rep.configs.push(J::obj().set("config", config).set("sequences", total).set("wall_s", t0.elapsed().as_secs_f64()));
    rep.states += total as u64;
    rep.transitions += cx.evaluations;
    rep.cx.merge(cx);
    0
}

fn main() {
    let args = Args::from_env();
    silence_panics();
    install_crash_handler(args.get("crumb"));
    let mut rep = EngineReport::new("bulk_mc", args.props());
    let ns = args.list_usize("n", &[0, 1, 2, 3]);
    let nk = args.usize("k", 3);
    let nv = args.usize("v", 2);
    let maxlen = args.usize("len", 5);
    let threads = args.threads();
    if let Some(p) = args.get("replay-path") {
        let path = mc::bfs::parse_idx_list(p);
        let n = ns[0];
        let code = mc::with_n!(n, run_n::<>(&mut rep, nk.max(n + 1), nv, maxlen, threads, Some(path)));
        std::process::exit(code);
    }
    for n in ns {
        mc::with_n!(n, run_n::<>(&mut rep, nk.max(n + 1), nv, maxlen.max(n), threads, None));
    }
    std::process::exit(rep.finish(args.get("out")));
}
