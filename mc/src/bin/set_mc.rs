//! set_mc: fixpoint BFS over the real `Set<Kx, N>` with the full Set alphabet (insert, replace,
//! contains, get, remove, take, retain, clear, drain, extend with every item sequence up to
//! length 3). Serves C07 (and C02, C03, C05, C12, C16 for the Set side).

use mc::bfs::{abstract_closed_form, explore_and_report, layouts_closed_form, Caps};
use mc::ctx::*;
use mc::payload::{KeyT, Kx};
use mc::setsys::{SAlpha, SetSys};
use std::time::Duration;

fn run_bfs<K: KeyT, const N: usize>(rep: &mut EngineReport, nk: u8, ext: u8, threads: usize, caps: &Caps) {
    let sys = SetSys::<K, N>::new(nk, SAlpha::Full, ext);
    let a = K::TAGS as usize;
    explore_and_report(
        &sys,
        rep,
        threads,
        caps,
        Some(abstract_closed_form(N, sys.nk as usize, a)),
        Some(layouts_closed_form(N, sys.nk as usize, a)),
    );
}

fn run_replay<K: KeyT, const N: usize>(nk: u8, ext: u8, path: &[u32], op: Option<u32>, props: PMask) -> i32 {
    let sys = SetSys::<K, N>::new(nk, SAlpha::Full, ext);
    let (code, j) = mc::bfs::replay(&sys, path, op, props);
    println!("{}", j.dump());
    code
}

fn main() {
    let args = Args::from_env();
    silence_panics();
    install_crash_handler(args.get("crumb"));
    let mut rep = EngineReport::new("set_mc", args.props());
    let ns = args.list_usize("n", &[0, 1, 2, 3]);
    let ext = args.usize("ext", 3) as u8;
    let extra_k = args.usize("extra-k", 1);
    let threads = args.threads();
    let caps = Caps {
        max_states: args.usize("max-states", 8_000_000),
        wall: Duration::from_secs(args.usize("wall", 3000) as u64),
    };
    if let Some(p) = args.get("replay-path") {
        let path = mc::bfs::parse_idx_list(p);
        let op = args.get("replay-op").and_then(|x| x.parse().ok());
        let n = ns[0];
        let nk = (n + extra_k).max(1) as u8;
        let props = args.props();
        let code = match args.get("payload").unwrap_or("kx") {
            "u8" => mc::with_n!(n, run_replay::<u8>(nk, ext, &path, op, props)),
            "string" => mc::with_n!(n, run_replay::<String>(nk, ext, &path, op, props)),
            "path" => mc::with_n!(n, run_replay::<std::path::PathBuf>(nk, ext, &path, op, props)),
            "unit" => mc::with_n!(n, run_replay::<()>(nk, ext, &path, op, props)),
            "nodrop" => mc::with_n!(n, run_replay::<mc::payload::Kn>(nk, ext, &path, op, props)),
            _ => mc::with_n!(n, run_replay::<Kx>(nk, ext, &path, op, props)),
        };
        std::process::exit(code);
    }
    let payload = args.get("payload").unwrap_or("kx").to_string();
    for n in ns {
        let nk = (n + extra_k).max(1) as u8;
        match payload.as_str() {
            "u8" => mc::with_n!(n, run_bfs::<u8>(&mut rep, nk, ext, threads, &caps)),
            "string" => mc::with_n!(n, run_bfs::<String>(&mut rep, nk, ext, threads, &caps)),
            "path" => mc::with_n!(n, run_bfs::<std::path::PathBuf>(&mut rep, nk, ext, threads, &caps)),
            "unit" => mc::with_n!(n, run_bfs::<()>(&mut rep, nk, ext, threads, &caps)),
            "nodrop" => mc::with_n!(n, run_bfs::<mc::payload::Kn>(&mut rep, nk, ext, threads, &caps)),
            _ => mc::with_n!(n, run_bfs::<Kx>(&mut rep, nk, ext, threads, &caps)),
        }
    }
    std::process::exit(rep.finish(args.get("out")));
}
