#![allow(unused_mut)]
//! wide_mc: capacity boundaries. The BFS engines explore every layout for N <= 5; code that
//! treats some *larger* capacity specially (a 64-bit occupancy mask, chunks of 8 or 16 slots,
//! a u8 length) is outside that space. This engine enumerates a structured family instead:
//!
//!   capacity C in {7,8,9, 15,16,17, 31,32,33, 63,64,65, 127,128,129, 255,256,257} (`--huge`: also 511-513, 1023-1025)
//!   x fill level f in {0, 1, 2, C/2, C-1, C}
//!   x internal order {ascending insertion, descending insertion, ascending then the first
//!     half removed and re-inserted (swap-remove shuffles the slots)}
//!   x every operation of a reduced alphabet, each with the arguments that matter at that
//!     fill level (first / middle / last / absent key),
//!
//! on `Map<u16, u16, C>` and `Set<u16, C>`, judged against a BTreeMap / BTreeSet model: C01
//! (dictionary), C03 (full container), C05 (invariants), C07 (set), C08 (set algebra and
//! predicates), C14 (equality, all pairs of family members of equal capacity and neighbouring
//! capacities). Exhaustive over the family; nothing is sampled.

use mc::ctx::*;
use mc::json::J;
use micromap::{Map, Set};
use std::collections::{BTreeMap, BTreeSet};
use std::panic::{catch_unwind, AssertUnwindSafe};

#[derive(Clone, Copy, Debug, PartialEq, Eq)]
enum Order {
    Asc,
    Desc,
    Shuffled,
}
const ORDERS: [Order; 3] = [Order::Asc, Order::Desc, Order::Shuffled];

static ALL_KEYS: std::sync::atomic::AtomicBool = std::sync::atomic::AtomicBool::new(false);
/// `--all-keys` (thorough tier): every stored key is an argument, at every capacity
fn all_keys() -> bool {
    ALL_KEYS.load(std::sync::atomic::Ordering::Relaxed)
}

fn fills(c: usize) -> Vec<usize> {
    let mut f = vec![0, 1, 2, c / 2, c.saturating_sub(1), c];
    f.retain(|x| *x <= c);
    f.sort_unstable();
    f.dedup();
    f
}

fn build_map<const C: usize>(f: usize, o: Order) -> (Map<u16, u16, C>, BTreeMap<u16, u16>) {
    let mut m = Map::new();
    let keys: Vec<u16> = match o {
        Order::Desc => (0..f as u16).rev().collect(),
        _ => (0..f as u16).collect(),
    };
    for k in &keys {
        m.insert(*k, k.wrapping_mul(3));
    }
    if o == Order::Shuffled {
        for k in 0..(f / 2) as u16 {
            m.remove(&k);
        }
        for k in 0..(f / 2) as u16 {
            m.insert(k, k.wrapping_mul(3));
        }
    }
    let model = (0..f as u16).map(|k| (k, k.wrapping_mul(3))).collect();
    (m, model)
}
fn build_set<const C: usize>(f: usize, o: Order) -> (Set<u16, C>, BTreeSet<u16>) {
    let (m, md) = build_map::<C>(f, o);
    let mut s = Set::new();
    for (k, _) in m.iter() {
        s.insert(*k);
    }
    (s, md.keys().copied().collect())
}

fn agree<const C: usize>(cx: &mut Ctx, pm: PMask, m: &Map<u16, u16, C>, md: &BTreeMap<u16, u16>, what: &str) {
    cx.check(pm | C05, m.len() == md.len() && m.is_empty() == md.is_empty() && m.capacity() == C, || {
        format!("{what}: len() is {} (model {}), capacity() {}", m.len(), md.len(), m.capacity())
    });
    let mut got: Vec<(u16, u16)> = m.iter().map(|(k, v)| (*k, *v)).collect();
    got.sort_unstable();
    let want: Vec<(u16, u16)> = md.iter().map(|(k, v)| (*k, *v)).collect();
    cx.check(pm | C05, got == want, || format!("{what}: iteration yields {} entries that differ from the model's {}", got.len(), want.len()));
    for k in 0..(C as u16 + 2) {
        let g = m.get(&k).copied();
        cx.check(pm, g == md.get(&k).copied() && m.contains_key(&k) == md.contains_key(&k), || {
            format!("{what}: get({k}) is {g:?}, the model says {:?}", md.get(&k))
        });
    }
}

fn map_family<const C: usize>(cx: &mut Ctx) -> u64 {
    let mut cases = 0u64;
    for f in fills(C) {
        for o in ORDERS {
            // every stored key for moderate capacities (each slot position matters to code that
            // scans in blocks or from a cursor); for the large ones the keys around block boundaries
            // counted from either end, plus the absent ones
            let keys_of_interest: Vec<u16> = {
                let mut k: Vec<u16> = if C <= 130 || (all_keys() && C <= 260) {
                    (0..f as u16).collect()
                } else {
                    let near = [0usize, 1, 2, 7, 8, 9, 15, 16, 17, 31, 32, 33, 63, 64, 65];
                    near.iter().flat_map(|d| [*d, f.wrapping_sub(1).wrapping_sub(*d)]).filter(|x| *x < f).map(|x| x as u16).chain([(f / 2) as u16]).filter(|x| (*x as usize) < f).collect()
                };
                k.extend([f as u16, (C + 1) as u16]);
                k.sort_unstable();
                k.dedup();
                k
            };
            cx.here.path = vec![format!("Map<u16,u16,{C}> filled with keys 0..{f} ({o:?})")];
            // each operation from a freshly built state
            for &k in &keys_of_interest {
                macro_rules! case {
                    ($name:expr, $pm:expr, |$m:ident, $md:ident| $body:block) => {if (($pm) | C03 | C05) & cx.enabled != 0 {
                        // (a case is executed only for the properties whose statements cover its operation)
                        cx.here.op = format!("{} (key {k})", $name);
                        cx.evaluations += 1;
                        cx.nontrivial += 1;
                        cases += 1;
                        let (mut $m, mut $md) = build_map::<C>(f, o);
                        $body
                        agree(cx, $pm, &$m, &$md, $name);
                    }};
                }
                case!("insert", C01, |m, md| {
                    let new = !md.contains_key(&k);
                    if new && md.len() >= C {
                        let r = catch_unwind(AssertUnwindSafe(|| m.insert(k, 9)));
                        cx.check(C01 | C03, r.is_err(), || format!("insert of new key {k} into a full Map<_,_,{C}> did not panic"));
                    } else {
                        let r = m.insert(k, 9);
                        cx.check(C01, r == md.insert(k, 9), || format!("insert({k}) returned {r:?}"));
                    }
                });
                case!("checked_insert", C01, |m, md| {
                    let want = if md.contains_key(&k) || md.len() < C { Some(md.insert(k, 8)) } else { None };
                    let r = m.checked_insert(k, 8);
                    cx.check(C01 | C03, r == want, || format!("checked_insert({k}) returned {r:?}, expected {want:?}"));
                });
                case!("insert_key_value", C01, |m, md| {
                    if !md.contains_key(&k) && md.len() >= C {
                        let r = catch_unwind(AssertUnwindSafe(|| m.insert_key_value(k, 9)));
                        cx.check(C01 | C03, r.is_err(), || format!("insert_key_value of new key {k} into a full map did not panic"));
                    } else {
                        let r = m.insert_key_value(k, 7);
                        cx.check(C01, r == md.insert(k, 7).map(|o| (k, o)), || format!("insert_key_value({k}) returned {r:?}"));
                    }
                });
                case!("remove", C01, |m, md| {
                    let r = m.remove(&k);
                    cx.check(C01, r == md.remove(&k), || format!("remove({k}) returned {r:?}"));
                });
                case!("remove_entry", C01, |m, md| {
                    let r = m.remove_entry(&k);
                    cx.check(C01, r == md.remove(&k).map(|o| (k, o)), || format!("remove_entry({k}) returned {r:?}"));
                });
                case!("get_mut", C01, |m, md| {
                    if let Some(x) = m.get_mut(&k) {
                        *x = 5;
                    }
                    if let Some(x) = md.get_mut(&k) {
                        *x = 5;
                    }
                });
                case!("entry.or_insert", C11, |m, md| {
                    if !md.contains_key(&k) && md.len() >= C {
                        let r = catch_unwind(AssertUnwindSafe(|| {
                            m.entry(k).or_insert(4);
                        }));
                        cx.check(C11 | C03, r.is_err(), || format!("entry({k}).or_insert into a full map did not panic"));
                    } else {
                        let r = *m.entry(k).or_insert(4);
                        cx.check(C11, r == *md.entry(k).or_insert(4), || format!("entry({k}).or_insert gave {r}"));
                    }
                });
                case!("get_disjoint_mut", C13, |m, md| {
                    let other = if k == 0 { 1 } else { 0 };
                    let [a, b] = m.get_disjoint_mut([&k, &other]);
                    cx.check(C13, a.is_some() == md.contains_key(&k) && b.is_some() == md.contains_key(&other), || {
                        format!("get_disjoint_mut([{k}, {other}]) presence differs from the model")
                    });
                    if let Some(x) = a {
                        *x = 1;
                        md.insert(k, 1);
                    }
                    if let Some(y) = b {
                        *y = 2;
                        md.insert(other, 2);
                    }
                });
                // a present key requested twice, among other present keys, in every arrangement of 3 and 4
                // requests: must panic (never two references to one value); an absent key twice: panic or Nones
                if C13 & cx.enabled != 0 && f >= 3 {
                    let others: Vec<u16> = [0u16, (f - 1) as u16, (f / 2) as u16, 1].into_iter().filter(|x| *x != k).collect();
                    let (x, y) = (others[0], others[1]);
                    let arr3: [[u16; 3]; 3] = [[x, k, k], [k, x, k], [k, k, x]];
                    let arr4: [[u16; 4]; 6] = [[x, k, y, k], [k, x, k, y], [x, y, k, k], [k, k, x, y], [k, x, y, k], [x, k, k, y]];
                    macro_rules! dup_case {
                        ($ks:expr) => {{
                            let ks = $ks;
                            cx.here.op = format!("get_disjoint_mut({ks:?}) - key {k} requested twice");
                            cx.evaluations += 1;
                            cases += 1;
                            let (mut m, md) = build_map::<C>(f, o);
                            let present = md.contains_key(&k);
                            let refs = ks.each_ref();
                            let r = catch_unwind(AssertUnwindSafe(|| m.get_disjoint_mut(refs).map(|o| o.map(|v| *v))));
                            match r {
                                Err(_) => {}
                                Ok(got) => {
                                    cx.check(C13, !present, || format!("get_disjoint_mut({ks:?}) returned {got:?} although key {k} is present and was requested twice"));
                                    let want = ks.map(|q| md.get(&q).copied());
                                    cx.check(C13, got == want, || format!("get_disjoint_mut({ks:?}) returned {got:?}, get_mut gives {want:?}"));
                                }
                            }
                            agree(cx, C13, &m, &md, "get_disjoint_mut with a repeated key");
                        }};
                    }
                    for ks in arr3 {
                        dup_case!(ks);
                    }
                    for ks in arr4 {
                        dup_case!(ks);
                    }
                }
            }
            macro_rules! whole {
                ($name:expr, $pm:expr, |$m:ident, $md:ident| $body:block) => {if (($pm) | C05) & cx.enabled != 0 {
                    cx.here.op = $name.to_string();
                    cx.evaluations += 1;
                    cx.nontrivial += 1;
                    cases += 1;
                    let (mut $m, mut $md) = build_map::<C>(f, o);
                    $body
                    agree(cx, $pm, &$m, &$md, $name);
                }};
            }
            whole!("retain(even keys)", C01, |m, md| {
                m.retain(|k, v| {
                    *v += 1;
                    k % 2 == 0
                });
                md.retain(|k, v| {
                    *v += 1;
                    k % 2 == 0
                });
            });
            whole!("retain(none)", C01, |m, md| {
                m.retain(|_, _| false);
                md.clear();
            });
            whole!("clear", C01, |m, md| {
                m.clear();
                md.clear();
            });
            whole!("drain(take 1) then refill", C10, |m, md| {
                let mut d = m.drain();
                let first = d.next();
                cx.check(C10, first.is_some() == !md.is_empty() && d.len() == md.len().saturating_sub(1), || "drain(): first item / len() wrong".to_string());
                drop(d);
                md.clear();
                for k in 0..C as u16 {
                    m.insert(k, 1);
                    md.insert(k, 1);
                }
            });
            whole!("iter_mut / values_mut writes", C09, |m, md| {
                let n = m.iter_mut().map(|(_, v)| *v = 6).count();
                cx.check(C09, n == md.len() && m.iter().len() == n && m.keys().len() == n && m.values_mut().len() == n, || format!("iter_mut visited {n} of {} entries", md.len()));
                md.values_mut().for_each(|v| *v = 6);
            });
            whole!("into_iter / into_keys / into_values", C10, |m, md| {
                let a: BTreeMap<u16, u16> = m.clone().into_iter().collect();
                let b: BTreeSet<u16> = m.clone().into_keys().collect();
                let c = m.clone().into_values().count();
                cx.check(C10, a == md && b.len() == md.len() && c == md.len(), || "consuming iterators do not yield the contents".to_string());
            });
            whole!("clone / clone_from", C15, |m, md| {
                let c = m.clone();
                let mut d: Map<u16, u16, C> = Map::new();
                d.insert(60000, 1);
                d.clone_from(&m);
                cx.check(C15 | C14, c == m && m == c && d == m && d.len() == m.len(), || "clone()/clone_from() is not equal to the original".to_string());
                m = d;
            });
            whole!("from_iter of its own entries twice", C16, |m, md| {
                let items: Vec<(u16, u16)> = m.iter().map(|(k, v)| (*k, *v)).chain(m.iter().map(|(k, v)| (*k, v + 1))).collect();
                m = items.into_iter().collect();
                md.values_mut().for_each(|v| *v += 1);
            });
            whole!("Debug/Display length", C19, |m, md| {
                let s = format!("{m}");
                let d = format!("{m:?}");
                cx.check(C19, s.matches(": ").count() == md.len() && d.matches(": ").count() == md.len(), || "Display/Debug do not show one entry per stored pair".to_string());
            });
        }
    }
    cases
}

fn set_family<const C: usize>(cx: &mut Ctx) -> u64 {
    let mut cases = 0u64;
    for f in fills(C) {
        for o in ORDERS {
            cx.here.path = vec![format!("Set<u16,{C}> filled with 0..{f} ({o:?})")];
            for k in [0u16, (f / 2) as u16, f.saturating_sub(1) as u16, f as u16] {
                cx.here.op = format!("set ops with element {k}");
                cx.evaluations += 1;
                cx.nontrivial += 1;
                cases += 1;
                let (mut s, mut md) = build_set::<C>(f, o);
                cx.check(C07, s.contains(&k) == md.contains(&k) && s.get(&k).copied() == md.get(&k).copied(), || format!("contains/get({k}) differ from the model"));
                if md.contains(&k) || md.len() < C {
                    let r = s.insert(k);
                    cx.check(C07, r == md.insert(k), || format!("Set::insert({k}) returned {r}"));
                    let r = s.replace(k);
                    cx.check(C07, r == Some(k), || format!("Set::replace({k}) returned {r:?}"));
                } else {
                    let r = catch_unwind(AssertUnwindSafe(|| s.insert(k)));
                    cx.check(C07 | C03, r.is_err(), || format!("Set::insert of new element {k} into a full Set<_,{C}> did not panic"));
                }
                let r = s.remove(&k);
                cx.check(C07, r == md.remove(&k), || format!("Set::remove({k}) returned {r}"));
                let r = s.take(&k);
                cx.check(C07, r.is_none(), || format!("Set::take({k}) after remove returned {r:?}"));
                let mut got: Vec<u16> = s.iter().copied().collect();
                got.sort_unstable();
                cx.check(C07 | C05, got == md.iter().copied().collect::<Vec<_>>() && s.len() == md.len(), || format!("set contents differ from the model after operations on {k}"));
            }
        }
    }
    cases
}

/// Equality, set algebra and predicates over all ordered pairs of family members of capacities C and D.
fn pair_family<const C: usize, const D: usize>(cx: &mut Ctx) -> u64 {
    let mut cases = 0u64;
    for fa in fills(C) {
        for oa in ORDERS {
            let (ma, mda) = build_map::<C>(fa, oa);
            let (sa, sda) = build_set::<C>(fa, oa);
            for fb in fills(D) {
                for ob in ORDERS {
                    for variant in 0..3u8 {
                        // 0: as is; 1: one value differs; 2: one key replaced by a foreign key
                        let (mut mb, mut mdb) = build_map::<D>(fb, ob);
                        let (mut sb, mut sdb) = build_set::<D>(fb, ob);
                        if variant > 0 && fb == 0 {
                            continue;
                        }
                        let last = (fb.saturating_sub(1)) as u16;
                        if variant == 1 {
                            mb.insert(last, 60001);
                            mdb.insert(last, 60001);
                        } else if variant == 2 {
                            mb.remove(&last);
                            mdb.remove(&last);
                            mb.insert(60002, 1);
                            mdb.insert(60002, 1);
                            sb.remove(&last);
                            sdb.remove(&last);
                            sb.insert(60002);
                            sdb.insert(60002);
                        }
                        cx.here.path = vec![format!("A = Map/Set<{C}> 0..{fa} ({oa:?})"), format!("B = Map/Set<{D}> 0..{fb} ({ob:?}) variant {variant}")];
                        cx.here.op = "A == B, B == A, set algebra, predicates".into();
                        cx.evaluations += 1;
                        cx.nontrivial += 1;
                        cases += 1;
                        let want = mda == mdb;
                        cx.check(C14, (ma == mb) == want && (mb == ma) == want, || format!("Map equality is {} / {} but the contents are {}", ma == mb, mb == ma, if want { "equal" } else { "different" }));
                        if variant != 1 {
                            let wants = sda == sdb;
                            cx.check(C14, (sa == sb) == wants && (sb == sa) == wants, || format!("Set equality is {} / {} but the contents are {}", sa == sb, sb == sa, if wants { "equal" } else { "different" }));
                            let cnt = |it: &mut dyn Iterator<Item = &u16>| -> BTreeSet<u16> { it.copied().collect() };
                            let u = cnt(&mut sa.union(&sb));
                            let i = cnt(&mut sa.intersection(&sb));
                            let d = cnt(&mut sa.difference(&sb));
                            let y = cnt(&mut sa.symmetric_difference(&sb));
                            let nu = sa.union(&sb).count();
                            cx.check(
                                C08,
                                u == sda.union(&sdb).copied().collect() && nu == u.len() && i == sda.intersection(&sdb).copied().collect() && d == sda.difference(&sdb).copied().collect() && y == sda.symmetric_difference(&sdb).copied().collect(),
                                || "a set-algebra iterator does not yield the mathematical result".to_string(),
                            );
                            let sub = &sa - &sb;
                            cx.check(C08, sub.len() == d.len() && sub.iter().all(|x| d.contains(x)), || "A - B differs from difference()".to_string());
                            cx.check(C08, sa.is_subset(&sb) == sda.is_subset(&sdb) && sa.is_superset(&sb) == sda.is_superset(&sdb) && sa.is_disjoint(&sb) == sda.is_disjoint(&sdb), || {
                                "is_subset / is_superset / is_disjoint differ from the mathematical truth value".to_string()
                            });
                        }
                    }
                }
            }
        }
    }
    cases
}

/// Equal-but-distinguishable keys at capacity boundaries: equality on `.0` only, `.1` is the tag.
#[derive(Clone, Copy, Debug)]
struct Tk(u16, u16);
impl PartialEq for Tk {
    fn eq(&self, o: &Self) -> bool {
        self.0 == o.0
    }
}
impl Eq for Tk {}
impl std::borrow::Borrow<u16> for Tk {
    fn borrow(&self) -> &u16 {
        &self.0
    }
}

/// C12 at capacity boundaries: which of two equal key objects is stored / returned, for a present key in
/// the first, a middle and the last slot of maps and sets of every fill level and internal order.
fn ident_family<const C: usize>(cx: &mut Ctx) -> u64 {
    let mut cases = 0u64;
    for f in fills(C) {
        if f == 0 {
            continue;
        }
        for o in ORDERS {
            let build = || {
                let (plain, _) = build_map::<C>(f, o);
                let mut m: Map<Tk, u16, C> = Map::new();
                let mut s: Set<Tk, C> = Set::new();
                for (k, v) in plain.iter() {
                    m.insert(Tk(*k, 0), *v);
                    s.insert(Tk(*k, 0));
                }
                (m, s)
            };
            for k in [0u16, (f / 2) as u16, (f - 1) as u16] {
                cx.here.path = vec![format!("Map<Tk,u16,{C}> / Set<Tk,{C}> holding keys 0..{f} tagged 0 ({o:?})")];
                cx.here.op = format!("insertion paths with the equal key {k} tagged 1");
                cx.evaluations += 1;
                cx.nontrivial += 1;
                cases += 1;
                let stored_tag = |m: &Map<Tk, u16, C>| m.get_key_value(&k).map(|(kk, _)| kk.1);
                let old = k.wrapping_mul(3);
                {
                    let (mut m, _) = build();
                    let r = m.insert(Tk(k, 1), 9);
                    cx.check(C12, r == Some(old) && stored_tag(&m) == Some(0) && m.len() == f, || format!("insert of an equal key {k}: returned {r:?}, stored tag {:?} (the stored key must be kept)", stored_tag(&m)));
                }
                {
                    let (mut m, _) = build();
                    let r = m.insert_key_value(Tk(k, 1), 9);
                    cx.check(C12, r.map(|(kk, v)| (kk.1, v)) == Some((0, old)) && stored_tag(&m) == Some(1) && m.len() == f, || {
                        format!("insert_key_value of an equal key {k}: returned {r:?}, stored tag {:?} (the supplied key must be stored, the old one handed back)", stored_tag(&m))
                    });
                }
                {
                    let (mut m, _) = build();
                    let r = m.checked_insert(Tk(k, 1), 9);
                    cx.check(C12, r == Some(Some(old)) && stored_tag(&m) == Some(0), || format!("checked_insert of an equal key {k}: returned {r:?}, stored tag {:?}", stored_tag(&m)));
                }
                {
                    let (mut m, _) = build();
                    let e = m.entry(Tk(k, 1));
                    let shown = e.key().1;
                    let v = *e.or_insert(4);
                    cx.check(C12 | C11, shown == 0 && v == old && stored_tag(&m) == Some(0), || format!("entry of an equal key {k}: key() tag {shown}, value {v}, stored tag {:?}", stored_tag(&m)));
                    if let micromap::Entry::Occupied(oe) = m.entry(Tk(k, 1)) {
                        let (kk, _) = oe.remove_entry();
                        cx.check(C12 | C11, kk.1 == 0, || format!("OccupiedEntry::remove_entry of key {k} returned tag {}", kk.1));
                    }
                }
                {
                    let (_, mut s) = build();
                    let r = s.insert(Tk(k, 1));
                    cx.check(C12, !r && s.get(&k).map(|x| x.1) == Some(0), || format!("Set::insert of an equal element {k}: returned {r}, stored tag {:?}", s.get(&k).map(|x| x.1)));
                    let r = s.replace(Tk(k, 1));
                    cx.check(C12, r.map(|x| x.1) == Some(0) && s.get(&k).map(|x| x.1) == Some(1) && s.len() == f, || format!("Set::replace of an equal element {k}: returned {r:?}, stored tag {:?}", s.get(&k).map(|x| x.1)));
                    let t = s.take(&k);
                    cx.check(C12, t.map(|x| x.1) == Some(1), || format!("Set::take({k}) returned {t:?}"));
                }
            }
        }
    }
    cases
}


// ---------------------------------------------------------------------------------------------
// Ownership at capacity boundaries (C02, C10, C15): elements with destructors and counted clones.
// ---------------------------------------------------------------------------------------------
thread_local! {
    /// per-object state: 1 = live, 2 = destroyed; index = object id
    static OBJ: std::cell::RefCell<Vec<u8>> = const { std::cell::RefCell::new(Vec::new()) };
    /// what went wrong inside Clone / Drop of an element (reported by the case that was running)
    static OBJ_ERR: std::cell::RefCell<Vec<String>> = const { std::cell::RefCell::new(Vec::new()) };
    static CLONES: std::cell::Cell<u64> = const { std::cell::Cell::new(0) };
    /// fault injection for the C04 family: counts the element callbacks (==, clone, drop); the callback that
    /// finds the fuse at 0 panics (never a drop that runs during an unwinding - that would abort)
    static FUSE: std::cell::Cell<i64> = const { std::cell::Cell::new(i64::MAX) };
    static TICKS: std::cell::Cell<u64> = const { std::cell::Cell::new(0) };
}
struct Injected;
fn tick() {
    TICKS.with(|t| t.set(t.get() + 1));
    let f = FUSE.with(|f| {
        let v = f.get();
        f.set(v.saturating_sub(1));
        v
    });
    if f == 0 && !std::thread::panicking() {
        std::panic::panic_any(Injected);
    }
}
fn arm(at: i64) {
    TICKS.with(|t| t.set(0));
    FUSE.with(|f| f.set(at));
}
fn disarm() -> u64 {
    FUSE.with(|f| f.set(i64::MAX));
    TICKS.with(|t| t.get())
}
const OMAGIC: u32 = 0x5EED_0B1E;
fn obj_new() -> u32 {
    OBJ.with(|o| {
        let mut o = o.borrow_mut();
        o.push(1);
        (o.len() - 1) as u32
    })
}
fn obj_check(id: u32, cookie: u32, what: &str) -> bool {
    let ok = cookie == (OMAGIC ^ id) && OBJ.with(|o| o.borrow().get(id as usize).copied()) == Some(1);
    if !ok {
        OBJ_ERR.with(|e| e.borrow_mut().push(format!("{what} of an element that is not live (id field {id}, cookie {cookie:#x})")));
    }
    ok
}
fn obj_drop(id: u32, cookie: u32) {
    if obj_check(id, cookie, "drop") {
        OBJ.with(|o| o.borrow_mut()[id as usize] = 2);
    }
}
fn obj_live() -> usize {
    OBJ.with(|o| o.borrow().iter().filter(|x| **x == 1).count())
}
fn obj_reset() {
    OBJ.with(|o| o.borrow_mut().clear());
    OBJ_ERR.with(|e| e.borrow_mut().clear());
    CLONES.with(|c| c.set(0));
}
/// An element with a destructor: key (`==` on `x` only) or value.
#[derive(Debug)]
struct Ob {
    id: u32,
    cookie: u32,
    x: u16,
}
impl Ob {
    fn new(x: u16) -> Ob {
        let id = obj_new();
        Ob { id, cookie: OMAGIC ^ id, x }
    }
}
impl PartialEq for Ob {
    fn eq(&self, o: &Ob) -> bool {
        obj_check(self.id, self.cookie, "comparison");
        obj_check(o.id, o.cookie, "comparison");
        tick();
        self.x == o.x
    }
}
impl Eq for Ob {}
impl Clone for Ob {
    fn clone(&self) -> Ob {
        obj_check(self.id, self.cookie, "clone");
        tick();
        CLONES.with(|c| c.set(c.get() + 1));
        Ob::new(self.x)
    }
}
impl Drop for Ob {
    fn drop(&mut self) {
        obj_drop(self.id, self.cookie);
        self.cookie = 0xDEAD_DEAD;
        tick();
    }
}

fn build_own<const C: usize>(f: usize, o: Order) -> Map<Ob, Ob, C> {
    let (plain, _) = build_map::<C>(f, o);
    let mut m: Map<Ob, Ob, C> = Map::new();
    for (k, v) in plain.iter() {
        m.insert(Ob::new(*k), Ob::new(*v));
    }
    m
}

/// Every stored element is live, seen once; returns the sorted key codes.
fn own_contents<const C: usize>(m: &Map<Ob, Ob, C>) -> Vec<(u16, u16)> {
    let mut v: Vec<(u16, u16)> = m
        .iter()
        .map(|(k, v)| {
            obj_check(k.id, k.cookie, "iteration");
            obj_check(v.id, v.cookie, "iteration");
            (k.x, v.x)
        })
        .collect();
    v.sort_unstable();
    v
}

/// C02 / C10 / C15 with destructors at every capacity of the family: clone, clone_from, drains and consuming
/// iterators cut at several points (dropped or forgotten), retain, clear, removals, replacements, a rejected
/// insertion, bulk construction - each from a freshly built full / nearly full / half full / small container in
/// three internal orders; nothing is destroyed twice, nothing stays alive after everything was dropped, and a
/// clone makes exactly one clone per stored key and value.
fn own_family<const C: usize>(cx: &mut Ctx) -> u64 {
    let mut cases = 0u64;
    for f in fills(C) {
        for o in ORDERS {
            cx.here.path = vec![format!("Map<Ob,Ob,{C}> (elements with destructors) filled with keys 0..{f} ({o:?})")];
            let want: Vec<(u16, u16)> = (0..f as u16).map(|k| (k, k.wrapping_mul(3))).collect();
            macro_rules! own {
                ($name:expr, $pm:expr, $leak:expr, |$m:ident| $body:block) => {if ($pm) & cx.enabled != 0 {
                    cx.here.op = $name.to_string();
                    cx.evaluations += 1;
                    cx.nontrivial += 1;
                    cases += 1;
                    obj_reset();
                    {
                        let mut $m = build_own::<C>(f, o);
                        let _ = &mut $m;
                        $body
                    }
                    let errs: Vec<String> = OBJ_ERR.with(|e| e.borrow().clone());
                    cx.check($pm, errs.is_empty(), || format!("{}: {}", $name, errs.join("; ")));
                    let live = obj_live();
                    let leak: usize = $leak;
                    cx.check($pm, live <= leak, || format!("{}: {live} elements are still alive after everything was dropped (at most {leak} may be leaked)", $name));
                }};
            }
            own!("clone, drop the clone, then the original", C15 | C02, 0, |m| {
                let before = CLONES.with(|c| c.get());
                let c = m.clone();
                let made = CLONES.with(|c| c.get()) - before;
                cx.check(C15, made == 2 * f as u64, || format!("clone() of {f} entries made {made} element clones, expected {}", 2 * f));
                cx.check(C15, own_contents(&c) == want && own_contents(&m) == want && c.len() == f, || "the clone's entries differ from the original's".to_string());
                let live = obj_live();
                cx.check(C15 | C02, live == 4 * f, || format!("after clone() {live} elements are alive, expected {}", 4 * f));
                drop(c);
                cx.check(C15 | C02, own_contents(&m) == want && obj_live() == 2 * f, || "dropping the clone touched the original's elements".to_string());
            });
            own!("clone, drop the original, then the clone", C15 | C02, 0, |m| {
                let c = m.clone();
                drop(std::mem::replace(&mut m, Map::new()));
                cx.check(C15 | C02, own_contents(&c) == want && obj_live() == 2 * f, || "dropping the original touched the clone's elements".to_string());
            });
            for tf in [0usize, C / 2, C] {
                own!(format!("clone_from into a target holding {tf} other entries"), C15 | C02, 0, |m| {
                    let mut d: Map<Ob, Ob, C> = Map::new();
                    for k in 0..tf as u16 {
                        d.insert(Ob::new(40000 + k), Ob::new(1));
                    }
                    d.clone_from(&m);
                    cx.check(C15, own_contents(&d) == want && own_contents(&m) == want, || "clone_from: the target differs from the source".to_string());
                    cx.check(C15 | C02, obj_live() == 4 * f, || format!("after clone_from {} elements are alive, expected {}", obj_live(), 4 * f));
                });
            }
            for take in [0usize, 1, f / 2, f] {
                if take > f {
                    continue;
                }
                for forget in [false, true] {
                    own!(format!("drain, take {take}, {}", if forget { "forget" } else { "drop" }), C10 | C02, if forget { 2 * (f - take) } else { 0 }, |m| {
                        let mut got = Vec::new();
                        {
                            let mut d = m.drain();
                            for _ in 0..take {
                                got.push(d.next().expect("drain item"));
                            }
                            cx.check(C10, d.len() == f - take, || format!("drain().len() is {} after {take} of {f} items", d.len()));
                            if forget {
                                std::mem::forget(d);
                            }
                        }
                        cx.check(C10, m.is_empty() && m.iter().next().is_none(), || "the map is not empty after drain()".to_string());
                        for k in 0..C as u16 {
                            m.insert(Ob::new(k), Ob::new(5));
                        }
                        cx.check(C10, m.len() == C, || "the drained map cannot be refilled to capacity".to_string());
                        drop(got);
                    });
                }
                own!(format!("into_iter, take {take}, drop"), C10 | C02, 0, |m| {
                    let mut it = std::mem::replace(&mut m, Map::new()).into_iter();
                    let got: Vec<(Ob, Ob)> = it.by_ref().take(take).collect();
                    cx.check(C10, it.len() == f - take && got.len() == take, || format!("into_iter().len() is {} after {take} of {f} items", it.len()));
                    drop(it);
                    cx.check(C10 | C02, got.iter().all(|(k, v)| obj_check(k.id, k.cookie, "use of a yielded key") && obj_check(v.id, v.cookie, "use of a yielded value")), || "an element yielded by into_iter is not live".to_string());
                });
                own!(format!("into_keys / into_values, take {take}, drop"), C10 | C02, 0, |m| {
                    let c = m.clone();
                    let mut ik = std::mem::replace(&mut m, Map::new()).into_keys();
                    let ks: Vec<Ob> = ik.by_ref().take(take).collect();
                    drop(ik);
                    let mut iv = c.into_values();
                    let vs: Vec<Ob> = iv.by_ref().take(take).collect();
                    cx.check(C10, iv.len() == f - take, || "into_values().len() is wrong".to_string());
                    drop(iv);
                    cx.check(C10 | C02, ks.iter().chain(vs.iter()).all(|k| obj_check(k.id, k.cookie, "use of a yielded element")), || "an element yielded by into_keys / into_values is not live".to_string());
                });
            }
            own!("retain(even keys)", C02, 0, |m| {
                m.retain(|k, _| k.x % 2 == 0);
                cx.check(C02, own_contents(&m) == want.iter().copied().filter(|(k, _)| k % 2 == 0).collect::<Vec<_>>(), || "retain(even): contents".to_string());
                cx.check(C02, obj_live() == 2 * m.len(), || format!("after retain {} elements are alive but {} are stored", obj_live(), 2 * m.len()));
            });
            own!("clear, then reuse", C02, 0, |m| {
                m.clear();
                cx.check(C02, obj_live() == 0 && m.is_empty(), || format!("after clear() {} elements are still alive", obj_live()));
                m.insert(Ob::new(1), Ob::new(1));
            });
            for k in [0usize, f / 2, f.saturating_sub(1)] {
                if k >= f {
                    continue;
                }
                own!(format!("remove / remove_entry / replace of key {k}"), C02, 0, |m| {
                    let probe = Ob::new(k as u16);
                    let r = m.insert(Ob::new(k as u16), Ob::new(7));
                    cx.check(C02, r.as_ref().is_some_and(|v| obj_check(v.id, v.cookie, "use of the displaced value")) && obj_live() == 2 * f + 2, || format!("insert over key {k}: {} elements alive, expected {}", obj_live(), 2 * f + 2));
                    let r2 = m.insert_key_value(Ob::new(k as u16), Ob::new(8));
                    cx.check(C02, r2.as_ref().is_some_and(|(kk, v)| obj_check(kk.id, kk.cookie, "use of the old key") && obj_check(v.id, v.cookie, "use of the old value")), || "insert_key_value handed back a dead pair".to_string());
                    let e = m.remove_entry(&probe);
                    cx.check(C02, e.as_ref().is_some_and(|(kk, v)| obj_check(kk.id, kk.cookie, "use of the removed key") && obj_check(v.id, v.cookie, "use of the removed value")), || "remove_entry handed back a dead pair".to_string());
                    cx.check(C02, m.len() == f - 1 && own_contents(&m).len() == f - 1, || "after remove_entry the stored elements are not all live".to_string());
                });
            }
            if f == C {
                own!("rejected insertion into the full map", C02 | C03, 0, |m| {
                    let r = catch_unwind(AssertUnwindSafe(|| m.insert(Ob::new(50000), Ob::new(1))));
                    cx.check(C03, r.is_err(), || "insert of a new key into the full map did not panic".to_string());
                    cx.check(C02 | C03, obj_live() == 2 * f && own_contents(&m) == want, || format!("after the rejected insert {} elements are alive, expected {}", obj_live(), 2 * f));
                });
            }
            // the Set wrappers (SetDrain, SetIntoIter, Set::clone / retain / take / replace) on the same elements
            own!("Set: clone, drop either copy", C15 | C02, 0, |m| {
                let s: Set<Ob, C> = std::mem::replace(&mut m, Map::new()).into_keys().collect();
                let before = CLONES.with(|c| c.get());
                let c = s.clone();
                let made = CLONES.with(|c| c.get()) - before;
                cx.check(C15, made == f as u64 && c.len() == f && c == s, || format!("Set::clone() of {f} elements made {made} element clones and holds {}", c.len()));
                cx.check(C15 | C02, obj_live() == 2 * f, || format!("after Set::clone() {} elements are alive, expected {}", obj_live(), 2 * f));
                drop(s);
                cx.check(C15 | C02, obj_live() == f && c.iter().all(|k| obj_check(k.id, k.cookie, "iteration of the clone")), || "dropping the original set touched the clone's elements".to_string());
            });
            for take in [0usize, 1, f / 2, f] {
                if take > f {
                    continue;
                }
                for forget in [false, true] {
                    own!(format!("Set: drain, take {take}, {}", if forget { "forget" } else { "drop" }), C10 | C02, if forget { f - take } else { 0 }, |m| {
                        let mut s: Set<Ob, C> = std::mem::replace(&mut m, Map::new()).into_keys().collect();
                        let mut got = Vec::new();
                        {
                            let mut d = s.drain();
                            for _ in 0..take {
                                got.push(d.next().expect("drain item"));
                            }
                            cx.check(C10, d.len() == f - take, || format!("Set::drain().len() is {} after {take} of {f} items", d.len()));
                            if forget {
                                std::mem::forget(d);
                            }
                        }
                        cx.check(C10, s.is_empty() && s.iter().next().is_none(), || "the set is not empty after drain()".to_string());
                        for k in 0..C as u16 {
                            s.insert(Ob::new(k));
                        }
                        cx.check(C10, s.len() == C, || "the drained set cannot be refilled to capacity".to_string());
                        cx.check(C10 | C02, got.iter().all(|k| obj_check(k.id, k.cookie, "use of a drained element")), || "an element yielded by Set::drain is not live".to_string());
                    });
                }
                own!(format!("Set: into_iter, take {take}, drop"), C10 | C02, 0, |m| {
                    let s: Set<Ob, C> = std::mem::replace(&mut m, Map::new()).into_keys().collect();
                    let mut it = s.into_iter();
                    let got: Vec<Ob> = it.by_ref().take(take).collect();
                    cx.check(C10, it.len() == f - take && got.len() == take, || format!("Set::into_iter().len() is {} after {take} of {f} items", it.len()));
                    drop(it);
                    cx.check(C10 | C02, got.iter().all(|k| obj_check(k.id, k.cookie, "use of a yielded element")) && obj_live() == take, || {
                        format!("after dropping Set::into_iter {} elements are alive, {take} are held", obj_live())
                    });
                });
            }
            own!("Set: retain(even), take / replace at first, middle and last, clear", C02, 0, |m| {
                let mut s: Set<Ob, C> = std::mem::replace(&mut m, Map::new()).into_keys().collect();
                for k in [0usize, f / 2, f.saturating_sub(1)] {
                    if k >= f {
                        continue;
                    }
                    let old = s.replace(Ob::new(k as u16));
                    cx.check(C02, old.as_ref().is_some_and(|o| obj_check(o.id, o.cookie, "use of the replaced element")), || "Set::replace handed back a dead element".to_string());
                }
                cx.check(C02, obj_live() == f, || format!("after three replacements {} elements are alive, {f} are stored", obj_live()));
                let t = s.take(&Ob::new((f / 2) as u16));
                cx.check(C02, t.as_ref().is_some_and(|o| obj_check(o.id, o.cookie, "use of the taken element")) || f == 0, || "Set::take handed back a dead element".to_string());
                drop(t);
                s.retain(|k| k.x % 2 == 0);
                cx.check(C02, obj_live() == s.len() && s.iter().all(|k| obj_check(k.id, k.cookie, "iteration after retain")), || format!("after retain {} elements are alive but {} are stored", obj_live(), s.len()));
                s.clear();
                cx.check(C02, obj_live() == 0 && s.is_empty(), || format!("after Set::clear() {} elements are still alive", obj_live()));
            });
            own!("from_iter of clones of its entries, twice over", C02 | C16, 0, |m| {
                let items: Vec<(Ob, Ob)> = m.iter().chain(m.iter()).map(|(k, v)| (k.clone(), v.clone())).collect();
                let c: Map<Ob, Ob, C> = items.into_iter().collect();
                cx.check(C16 | C02, own_contents(&c) == want && obj_live() == 4 * f, || format!("from_iter: {} elements alive, expected {}", obj_live(), 4 * f));
                let s: Set<Ob, C> = m.keys().cloned().collect();
                let mut s2 = s.clone();
                s2.extend(m.keys().cloned());
                cx.check(C16 | C02, s2.len() == f && s == s2 && obj_live() == 6 * f, || format!("Set clone/extend: {} elements alive, expected {}", obj_live(), 6 * f));
            });
        }
    }
    cases
}


/// C04 at capacity boundaries: the operations that run user code over the whole container (clone, clone_from,
/// retain, clear, drop, drain / into_iter dropped half way, bulk construction, a replacement, `==`) with a panic
/// injected at the first, second, middle, last-but-one and last element callback (==, clone, drop) the operation
/// makes. Afterwards: nothing was destroyed twice or used dead, every surviving container yields only live
/// elements, can be cleared and refilled, and drops cleanly. Leaks are tolerated.
fn fault_family<const C: usize>(cx: &mut Ctx) -> u64 {
    let mut cases = 0u64;
    for f in fills(C) {
        if f == 0 {
            continue;
        }
        for o in ORDERS {
            cx.here.path = vec![format!("Map<Ob,Ob,{C}> (elements with destructors) filled with keys 0..{f} ({o:?})")];
            // op(m, other) runs with the fuse armed; both containers survive in the caller
            type Op<const C: usize> = (&'static str, fn(&mut Map<Ob, Ob, C>, &mut Map<Ob, Ob, C>));
            let ops: [Op<C>; 10] = [
                ("clone", |m, other| *other = m.clone()),
                ("clone_from into a half-full target", |m, other| other.clone_from(m)),
                ("retain(even keys)", |m, _| m.retain(|k, _| k.x % 2 == 0)),
                ("clear", |m, _| m.clear()),
                ("drop", |m, _| drop(std::mem::replace(m, Map::new()))),
                ("drain, take 1, drop", |m, _| {
                    let mut d = m.drain();
                    let _first = d.next();
                }),
                ("into_iter, take 1, drop", |m, _| {
                    let mut it = std::mem::replace(m, Map::new()).into_iter();
                    let _first = it.next();
                }),
                ("from_iter of clones", |m, other| *other = m.iter().map(|(k, v)| (k.clone(), v.clone())).collect()),
                ("insert over the middle key, remove the first", |m, _| {
                    let n = m.len() as u16;
                    m.insert(Ob::new(n / 2), Ob::new(1));
                    m.remove(&Ob::new(0));
                }),
                ("==", |m, other| {
                    let _ = *m == *other;
                }),
            ];
            for (name, op) in ops {
                // dry run: how many callbacks does the operation make?
                let setup = || {
                    let m = build_own::<C>(f, o);
                    let mut other: Map<Ob, Ob, C> = Map::new();
                    for k in 0..(C / 2).min(f) as u16 {
                        other.insert(Ob::new(k), Ob::new(k.wrapping_mul(3)));
                    }
                    (m, other)
                };
                obj_reset();
                let total = {
                    let (mut m, mut other) = setup();
                    arm(i64::MAX);
                    op(&mut m, &mut other);
                    disarm()
                };
                if !OBJ_ERR.with(|e| e.borrow().is_empty()) {
                    continue; // misbehaves without any panic: another property's business
                }
                let mut at: Vec<u64> = vec![0, 1, total / 2, total.saturating_sub(2), total.saturating_sub(1)];
                at.retain(|p| *p < total);
                at.sort_unstable();
                at.dedup();
                for p in at {
                    cx.here.op = format!("{name}, a panic injected at element callback #{p} of {total}");
                    cx.evaluations += 1;
                    cx.nontrivial += 1;
                    cases += 1;
                    obj_reset();
                    {
                        let (mut m, mut other) = setup();
                        arm(p as i64);
                        let r = catch_unwind(AssertUnwindSafe(|| op(&mut m, &mut other)));
                        disarm();
                        cx.check(C04, r.as_ref().map_or_else(|e| e.is::<Injected>(), |_| true), || format!("{name}: a panic other than the injected one"));
                        for (which, c) in [("the container", &mut m), ("the second container", &mut other)] {
                            let items = own_contents(c);
                            let mut keys: Vec<u16> = items.iter().map(|e| e.0).collect();
                            keys.dedup();
                            cx.check(C04, keys.len() == items.len() && c.len() == items.len() && c.len() <= C, || {
                                format!("{name}: after the panic {which} has len() {} and yields {} entries, {} distinct keys", c.len(), items.len(), keys.len())
                            });
                            c.clear();
                            for k in 0..C as u16 {
                                c.insert(Ob::new(k), Ob::new(2));
                            }
                            cx.check(C04, c.len() == C, || format!("{name}: after the panic {which} cannot be cleared and refilled"));
                        }
                    }
                    let errs: Vec<String> = OBJ_ERR.with(|e| e.borrow().clone());
                    cx.check(C04, errs.is_empty(), || format!("{name}: {}", errs.join("; ")));
                }
            }
        }
    }
    cases
}

/// Set algebra and equality on elements wider than a machine word, all fill levels of both operands.
fn wide_elem_family<const C: usize, const D: usize>(cx: &mut Ctx) -> u64 {
    type W = (u64, u64);
    let w = |k: u16| -> W { (k as u64, (k as u64).wrapping_mul(0x9E37_79B9)) };
    let mut cases = 0u64;
    for fa in fills(C) {
        for oa in ORDERS {
            let (pa, _) = build_set::<C>(fa, oa);
            let a: Set<W, C> = pa.iter().map(|k| w(*k)).collect();
            let ma: BTreeSet<W> = a.iter().copied().collect();
            for fb in fills(D) {
                for variant in 0..2u8 {
                    let (pb, _) = build_set::<D>(fb, Order::Asc);
                    let mut b: Set<W, D> = pb.iter().map(|k| w(*k)).collect();
                    if variant == 1 {
                        if fb == 0 {
                            continue;
                        }
                        b.remove(&w((fb - 1) as u16));
                        b.insert(w(60002));
                    }
                    let mb: BTreeSet<W> = b.iter().copied().collect();
                    cx.here.path = vec![format!("A = Set<(u64,u64),{C}> 0..{fa} ({oa:?})"), format!("B = Set<(u64,u64),{D}> 0..{fb} variant {variant}")];
                    cx.here.op = "set algebra / equality on elements wider than a word".into();
                    cx.evaluations += 1;
                    cx.nontrivial += 1;
                    cases += 1;
                    let col = |it: &mut dyn Iterator<Item = &W>| -> (BTreeSet<W>, usize) {
                        let v: Vec<W> = it.copied().collect();
                        (v.iter().copied().collect(), v.len())
                    };
                    let (u, nu) = col(&mut a.union(&b));
                    let (i, ni) = col(&mut a.intersection(&b));
                    let (d, nd) = col(&mut a.difference(&b));
                    let (y, ny) = col(&mut a.symmetric_difference(&b));
                    let folded = a.difference(&b).fold(0usize, |n, _| n + 1);
                    cx.check(
                        C08,
                        u == ma.union(&mb).copied().collect() && nu == u.len() && i == ma.intersection(&mb).copied().collect() && ni == i.len() && d == ma.difference(&mb).copied().collect() && nd == d.len() && folded == nd && y == ma.symmetric_difference(&mb).copied().collect() && ny == y.len(),
                        || "a set-algebra iterator over wide elements does not yield the mathematical result (or repeats an element)".to_string(),
                    );
                    let sub = &a - &b;
                    cx.check(C08, sub.len() == d.len() && sub.iter().all(|x| d.contains(x)), || "A - B over wide elements differs from the mathematical difference".to_string());
                    cx.check(C08, a.is_subset(&b) == ma.is_subset(&mb) && a.is_disjoint(&b) == ma.is_disjoint(&mb), || "predicates over wide elements are wrong".to_string());
                    cx.check(C14, (a == b) == (ma == mb) && (b == a) == (ma == mb), || "Set equality over wide elements is wrong".to_string());
                }
            }
        }
    }
    cases
}

fn run_cap<const C: usize, const D: usize>(rep: &mut EngineReport) {
    let t0 = std::time::Instant::now();
    let mut cx = rep.cx.fork();
    cx.here.config = format!("capacity boundary family: Map<u16,u16,{C}> / Set<u16,{C}>, pairs with capacity {D}");
    let en = cx.enabled;
    let a = if en & (C01 | C03 | C05 | C09 | C10 | C11 | C13 | C15 | C16 | C19) != 0 { map_family::<C>(&mut cx) } else { 0 };
    let b = if en & (C07 | C03 | C05) != 0 { set_family::<C>(&mut cx) } else { 0 };
    let (c, mut d) = if en & (C14 | C08) != 0 { (pair_family::<C, C>(&mut cx), pair_family::<C, D>(&mut cx)) } else { (0, 0) };
    if en & (C14 | C08) != 0 {
        d += wide_elem_family::<C, D>(&mut cx);
    }
    if en & (C12 | C11) != 0 {
        d += ident_family::<C>(&mut cx);
    }
    if en & (C02 | C10 | C15) != 0 {
        d += own_family::<C>(&mut cx);
    }
    if en & C04 != 0 {
        d += fault_family::<C>(&mut cx);
    }
    cx.sample(|| J::obj().set("capacity", C).set("fill_levels", format!("{:?}", fills(C))).set("orders", "ascending, descending, shuffled by swap-removes"));
    rep.configs.push(
        J::obj()
            .set("config", cx.here.config.as_str())
            .set("map_cases", a)
            .set("set_cases", b)
            .set("pair_cases", c + d)
            .set("wall_s", t0.elapsed().as_secs_f64()),
    );
    rep.states += (fills(C).len() * ORDERS.len() * 2) as u64;
    rep.transitions += a + b + c + d;
    rep.cx.merge(cx);
}

fn main() {
    let args = Args::from_env();
    silence_panics();
    install_crash_handler(args.get("crumb"));
    let mut rep = EngineReport::new("wide_mc", args.props());
    let big = !args.flag("small");
    let huge = args.flag("huge");
    ALL_KEYS.store(args.flag("all-keys"), std::sync::atomic::Ordering::Relaxed);
    run_cap::<7, 8>(&mut rep);
    run_cap::<8, 9>(&mut rep);
    run_cap::<9, 8>(&mut rep);
    run_cap::<15, 16>(&mut rep);
    run_cap::<16, 17>(&mut rep);
    run_cap::<17, 16>(&mut rep);
    run_cap::<31, 32>(&mut rep);
    run_cap::<32, 33>(&mut rep);
    run_cap::<33, 32>(&mut rep);
    run_cap::<63, 64>(&mut rep);
    run_cap::<64, 65>(&mut rep);
    run_cap::<65, 64>(&mut rep);
    if big {
        run_cap::<127, 128>(&mut rep);
        run_cap::<128, 129>(&mut rep);
        run_cap::<129, 128>(&mut rep);
        run_cap::<255, 256>(&mut rep);
        run_cap::<256, 257>(&mut rep);
        run_cap::<257, 256>(&mut rep);
    }
    if huge {
        run_cap::<511, 512>(&mut rep);
        run_cap::<512, 513>(&mut rep);
        run_cap::<513, 512>(&mut rep);
        run_cap::<1023, 1024>(&mut rep);
        run_cap::<1024, 1025>(&mut rep);
        run_cap::<1025, 1024>(&mut rep);
    }
    std::process::exit(rep.finish(args.get("out")));
}
