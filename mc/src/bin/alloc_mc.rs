//! alloc_mc (C06): the Map and Set explorations on non-allocating element types under a
//! counting global allocator: every non-panicking subject call must make zero allocator calls,
//! and every reference handed out must point inside the container value. Besides the BFS
//! alphabets (construction, insertion, lookup, removal, retain, drain, entry API, iter_mut),
//! every distinct state is observed through all iterator kinds, set algebra, clone, ==,
//! Debug/Display into a non-allocating sink, get_disjoint_mut and bulk construction.

use mc::bfs::{abstract_closed_form, explore_and_report, par_states, Caps};
use mc::ctx::*;
use mc::json::J;
use mc::mapsys::{Alpha, MapSys};
use mc::payload::Big;
use mc::setsys::{SAlpha, SetSys};
use mc::subject::{self, Counting};
use mc::subj;
use micromap::{Map, Set};
use std::fmt::Write;

#[global_allocator]
static GLOBAL: Counting = Counting;

const PM: PMask = C06;

/// A `fmt::Write` sink that never allocates.
struct Sink {
    buf: [u8; 512],
    len: usize,
}
impl Sink {
    fn new() -> Self {
        Sink { buf: [0; 512], len: 0 }
    }
}
impl std::fmt::Write for Sink {
    fn write_str(&mut self, s: &str) -> std::fmt::Result {
        let n = s.len().min(self.buf.len() - self.len);
        self.buf[self.len..self.len + n].copy_from_slice(&s.as_bytes()[..n]);
        self.len += n;
        Ok(())
    }
}

macro_rules! zero {
    ($cx:expr, $what:expr, $e:expr) => {{
        subject::reset();
        let r = subj!($e);
        let n = subject::take();
        $cx.check(PM, n == 0, || format!("{} made {n} allocator call(s)", $what));
        $cx.evaluations += 1;
        r
    }};
}

fn inside<T, C>(r: &T, c: &C) -> bool {
    let a = r as *const T as usize;
    let lo = c as *const C as usize;
    a >= lo && a + std::mem::size_of::<T>() <= lo + std::mem::size_of::<C>()
}

fn observers<const N: usize>(cx: &mut Ctx, entries: &[(u8, u8)], nk: u8) {
    cx.here.op = "observers".into();
    if !entries.is_empty() {
        cx.nontrivial += 1;
    }
    // construction
    let mut m: Map<u8, u8, N> = zero!(cx, "Map::new", Map::new());
    let _d: Map<u8, u8, N> = zero!(cx, "Map::default", Map::default());
    for (k, v) in entries {
        zero!(cx, "insert", m.insert(*k, *v));
    }
    let mut s: Set<u8, N> = zero!(cx, "Set::new", Set::new());
    for (k, _) in entries {
        zero!(cx, "Set::insert", s.insert(*k));
    }
    // bulk construction from an array iterator
    let arr: [(u8, u8); N] = std::array::from_fn(|i| entries.get(i).copied().unwrap_or((0, 0)));
    let _fm: Map<u8, u8, N> = zero!(cx, "Map::from_iter", arr.into_iter().collect());
    let _fa: Map<u8, u8, N> = zero!(cx, "Map::from(array)", Map::from(arr));
    let karr: [u8; N] = std::array::from_fn(|i| entries.get(i).map(|e| e.0).unwrap_or(0));
    let _fs: Set<u8, N> = zero!(cx, "Set::from(array)", Set::from(karr));
    let mut es: Set<u8, N> = Set::new();
    zero!(cx, "Set::extend(&T)", es.extend(karr.iter()));
    // extend / collect from allocation-free sources with every kind of size_hint, into a set that
    // already holds the items (so that nothing overflows): exact, (0, Some(n)), (0, None), an upper
    // bound larger than the free slots, a huge upper bound
    {
        let mut s2 = s.clone();
        zero!(cx, "Set::extend(array)", s2.extend(karr));
        zero!(cx, "Set::extend(filter)", s2.extend(karr.iter().copied().filter(|_| true)));
        let mut i = 0usize;
        zero!(cx, "Set::extend(from_fn)", s2.extend(core::iter::from_fn(|| {
            let r = entries.get(i).map(|e| e.0);
            i += 1;
            r
        })));
        zero!(cx, "Set::extend(chain twice)", s2.extend(karr.iter().copied().chain(karr.iter().copied()).filter(|k| entries.iter().any(|e| e.0 == *k))));
        zero!(cx, "Set::extend(take_while over a range)", s2.extend((0u8..=255).take_while(|k| entries.iter().any(|e| e.0 == *k))));
        cx.check(PM, s2 == s || entries.len() < N, || "extending a set with its own elements changed it".to_string());
        let mut j = 0usize;
        let _c1: Set<u8, N> = zero!(cx, "Set::from_iter(from_fn)", core::iter::from_fn(|| {
            let r = entries.get(j).map(|e| e.0);
            j += 1;
            r
        }).collect());
        let mut j = 0usize;
        let _c2: Map<u8, u8, N> = zero!(cx, "Map::from_iter(from_fn)", core::iter::from_fn(|| {
            let r = entries.get(j).copied();
            j += 1;
            r
        }).collect());
        let _c3: Map<u8, u8, N> = zero!(cx, "Map::from_iter(filter, repeats)", entries.iter().copied().chain(entries.iter().copied()).filter(|_| true).collect());
    }
    // borrowing iterators; every reference lies inside the container value
    macro_rules! drain_iter {
        ($what:expr, $mk:expr, $chk:expr) => {{
            let mut it = zero!(cx, $what, $mk);
            loop {
                let x = zero!(cx, concat!("next of ", $what), it.next());
                match x {
                    Some(x) => {
                        let ok: bool = ($chk)(x);
                        cx.check(PM, ok, || format!("{} yields a reference outside the container value", $what));
                    }
                    None => break,
                }
            }
        }};
    }
    drain_iter!("iter", m.iter(), |(k, v): (&u8, &u8)| inside(k, &m) && inside(v, &m));
    drain_iter!("keys", m.keys(), |k: &u8| inside(k, &m));
    drain_iter!("values", m.values(), |v: &u8| inside(v, &m));
    drain_iter!("Set::iter", s.iter(), |k: &u8| inside(k, &s));
    {
        let lo = &m as *const _ as usize;
        let hi = lo + std::mem::size_of::<Map<u8, u8, N>>();
        let within = move |a: usize| a >= lo && a < hi;
        drain_iter!("iter_mut", m.iter_mut(), |(k, v): (&u8, &mut u8)| within(k as *const u8 as usize) && within(v as *mut u8 as usize));
        drain_iter!("values_mut", m.values_mut(), |v: &mut u8| within(v as *mut u8 as usize));
    }
    let _ = zero!(cx, "len/is_empty/capacity", (m.len(), m.is_empty(), m.capacity(), s.len(), s.is_empty(), s.capacity()));
    // lookups of every key
    for k in 0..nk {
        if let Some(r) = zero!(cx, "get", m.get(&k)) {
            cx.check(PM, inside(r, &m), || "get returned a reference outside the map".to_string());
        }
        if let Some((a, b)) = zero!(cx, "get_key_value", m.get_key_value(&k)) {
            cx.check(PM, inside(a, &m) && inside(b, &m), || "get_key_value returned a reference outside the map".to_string());
        }
        let _ = zero!(cx, "contains_key", m.contains_key(&k));
        if let Some(r) = zero!(cx, "Set::get", s.get(&k)) {
            cx.check(PM, inside(r, &s), || "Set::get returned a reference outside the set".to_string());
        }
        let _ = zero!(cx, "Set::contains", s.contains(&k));
    }
    // get_disjoint_mut
    {
        let (k0, k1, k2) = (0u8, 1u8, nk.saturating_sub(1));
        let lo = &m as *const _ as usize;
        let hi = lo + std::mem::size_of::<Map<u8, u8, N>>();
        if k0 != k1 && k1 != k2 && k0 != k2 {
            let r = zero!(cx, "get_disjoint_mut", m.get_disjoint_mut([&k0, &k1, &k2]));
            for x in r.into_iter().flatten() {
                let a = x as *mut u8 as usize;
                cx.check(PM, a >= lo && a < hi, || "get_disjoint_mut returned a reference outside the map".to_string());
            }
        }
        let r = zero!(cx, "get_disjoint_mut", m.get_disjoint_mut([&k0, &k2.max(1)]));
        for x in r.into_iter().flatten() {
            let a = x as *mut u8 as usize;
            cx.check(PM, a >= lo && a < hi, || "get_disjoint_mut returned a reference outside the map".to_string());
        }
    }
    // clone, ==
    let c = zero!(cx, "clone", m.clone());
    let _ = zero!(cx, "==", c == m);
    let sc = zero!(cx, "Set::clone", s.clone());
    let _ = zero!(cx, "Set ==", sc == s);
    // formatting into a non-allocating sink
    {
        let mut sink = Sink::new();
        zero!(cx, "Debug", write!(sink, "{m:?}")).ok();
        zero!(cx, "alternate Debug", write!(sink, "{m:#?}")).ok();
        zero!(cx, "Display", write!(sink, "{m}")).ok();
        zero!(cx, "Set Debug", write!(sink, "{s:?}")).ok();
        zero!(cx, "Set Display", write!(sink, "{s}")).ok();
        // format specifications: width, fill/alignment, precision, sign, zero padding, alternate
        macro_rules! specs {
            ($x:expr, $what:expr) => {{
                zero!(cx, concat!($what, " {:40}"), write!(sink, "{:40}", $x)).ok();
                zero!(cx, concat!($what, " {:>40}"), write!(sink, "{:>40}", $x)).ok();
                zero!(cx, concat!($what, " {:*^7}"), write!(sink, "{:*^7}", $x)).ok();
                zero!(cx, concat!($what, " {:.2}"), write!(sink, "{:.2}", $x)).ok();
                zero!(cx, concat!($what, " {:+}"), write!(sink, "{:+}", $x)).ok();
                zero!(cx, concat!($what, " {:#}"), write!(sink, "{:#}", $x)).ok();
                zero!(cx, concat!($what, " {:012}"), write!(sink, "{:012}", $x)).ok();
                zero!(cx, concat!($what, " {:1$}"), write!(sink, "{:1$}", $x, 33)).ok();
                zero!(cx, concat!($what, " {:40?}"), write!(sink, "{:40?}", $x)).ok();
                zero!(cx, concat!($what, " {:<#12?}"), write!(sink, "{:<#12?}", $x)).ok();
                zero!(cx, concat!($what, " {:.3?}"), write!(sink, "{:.3?}", $x)).ok();
                sink.len = 0;
            }};
        }
        specs!(m, "Map");
        specs!(s, "Set");
        let it = m.iter();
        zero!(cx, "Iter Debug", write!(sink, "{it:?}")).ok();
        let it = m.keys();
        zero!(cx, "Keys Debug", write!(sink, "{it:?}")).ok();
        let it = m.values();
        zero!(cx, "Values Debug", write!(sink, "{it:?}")).ok();
    }
    // set algebra against every subset of the universe
    for mask in 0..(1u16 << nk) {
        let mut o: Set<u8, 6> = Set::new();
        for k in 0..nk {
            if mask & (1 << k) != 0 {
                o.insert(k);
            }
        }
        drain_iter!("union", s.union(&o), |_k: &u8| true);
        drain_iter!("intersection", s.intersection(&o), |k: &u8| inside(k, &s));
        drain_iter!("difference", s.difference(&o), |k: &u8| inside(k, &s));
        drain_iter!("symmetric_difference", s.symmetric_difference(&o), |_k: &u8| true);
        let _ = zero!(cx, "is_subset/is_superset/is_disjoint", (s.is_subset(&o), s.is_superset(&o), s.is_disjoint(&o)));
        let _d: Set<u8, N> = zero!(cx, "'-' operator", &s - &o);
        let _n = zero!(cx, "difference fold", s.difference(&o).fold(0usize, |a, _| a + 1));
        let mut sink = Sink::new();
        let it = s.difference(&o);
        zero!(cx, "Difference Debug", write!(sink, "{it:?}")).ok();
        let it = s.union(&o);
        zero!(cx, "Union Debug", write!(sink, "{it:?}")).ok();
    }
    // consuming iterators and drain
    {
        let mut it = zero!(cx, "into_iter", c.into_iter());
        while zero!(cx, "IntoIter::next", it.next()).is_some() {}
        let mut it = zero!(cx, "into_keys", m.clone().into_keys());
        while zero!(cx, "IntoKeys::next", it.next()).is_some() {}
        let mut it = zero!(cx, "into_values", m.clone().into_values());
        while zero!(cx, "IntoValues::next", it.next()).is_some() {}
        let mut it = zero!(cx, "Set::into_iter", sc.into_iter());
        while zero!(cx, "SetIntoIter::next", it.next()).is_some() {}
        let mut mm = m.clone();
        {
            let mut d = zero!(cx, "drain", mm.drain());
            let _ = zero!(cx, "Drain::next", d.next());
            zero!(cx, "drop(Drain)", drop(d));
        }
        let mut ss = s.clone();
        {
            let mut d = zero!(cx, "Set::drain", ss.drain());
            let _ = zero!(cx, "SetDrain::next", d.next());
            zero!(cx, "drop(SetDrain)", drop(d));
        }
        zero!(cx, "retain", mm.retain(|_, _| true));
        zero!(cx, "clear", mm.clear());
        zero!(cx, "drop(Map)", drop(mm));
    }
    // a large value type still lives inside the container
    {
        let mut big: Map<u8, Big, N> = zero!(cx, "Map<u8,Big>::new", Map::new());
        for (k, v) in entries {
            zero!(cx, "insert(Big)", big.insert(*k, Big([*v as u64; 16])));
        }
        for k in 0..nk {
            if let Some(r) = zero!(cx, "get(Big)", big.get(&k)) {
                cx.check(PM, inside(r, &big), || "get returned a reference outside the Map<u8,Big>".to_string());
            }
        }
        let _c = zero!(cx, "clone(Big)", big.clone());
    }
}

fn run_n<const N: usize>(rep: &mut EngineReport, nk: u8, nv: u8, threads: usize, caps: &Caps) {
    let msys = MapSys::<u8, u8, N>::new(nk, nv, Alpha::Full);
    let out = explore_and_report(&msys, rep, threads, caps, Some(abstract_closed_form(N, msys.nk as usize, msys.nv as usize)), None);
    let ssys = SetSys::<u8, N>::new(nk, SAlpha::Full, 2);
    explore_and_report(&ssys, rep, threads, caps, Some(abstract_closed_form(N, ssys.nk as usize, 1)), None);
    let mut cx = rep.cx.fork();
    cx.here.config = format!("observers on Map<u8,u8,{N}> / Set<u8,{N}> in every distinct state, keys={nk}");
    par_states(out.states.len(), threads, &mut cx, |s, lcx| {
        let entries: Vec<(u8, u8)> = out.states[s].snap.entries().iter().map(|e| (e.0, e.2)).collect();
        lcx.here.path = vec![format!("state {}", out.states[s].snap.render())];
        observers::<N>(lcx, &entries, nk);
        lcx.sample(|| J::obj().set("state", out.states[s].snap.render()).set("observed", "allocator calls around every subject call; address range of every reference"));
    });
    rep.transitions += cx.evaluations;
    rep.cx.merge(cx);
}

fn main() {
    let args = Args::from_env();
    silence_panics();
    install_crash_handler(args.get("crumb"));
    subject::mark_installed();
    let mut rep = EngineReport::new("alloc_mc", args.props());
    let ns = args.list_usize("n", &[0, 1, 2, 3]);
    let nv = args.usize("v", 2) as u8;
    let threads = args.threads();
    let caps = Caps::default();
    if args.get("replay-path").is_some() {
        // replays of this engine are whole-engine runs at the recorded capacity
        let n = ns[0];
        mc::with_n!(n, run_n::<>(&mut rep, (n + 1) as u8, nv, threads, &caps));
        let code = rep.finish(None);
        std::process::exit(code);
    }
    for n in ns {
        mc::with_n!(n, run_n::<>(&mut rep, (n + 1) as u8, nv, threads, &caps));
    }
    std::process::exit(rep.finish(args.get("out")));
}
