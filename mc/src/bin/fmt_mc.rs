//! fmt_mc (C19): every distinct state (after removals too) x {:?}, {:#?}, {} for Map and Set,
//! and the Debug output of every iterator kind at every consumption prefix. Expected strings
//! are produced by std's own debug_map / debug_set / debug_list builders over the independently
//! observed entry sequence; for iterators the not-yet-yielded entries are compared as a
//! multiset (the property fixes no order) and the string must be exactly std's list rendering
//! of the items it shows. Formatting must not clone, destroy or change anything.

use mc::bfs::{bfs, par_states, Caps};
use mc::ctx::*;
use mc::json::J;
use mc::mapsys::{flush_ledger, Alpha, MapSys};
use mc::payload::{self as pl, Kx, Vx, KD, VD};
use micromap::{Map, Set};
use std::fmt;

const PM: PMask = C19;

/// Debug/Display twins of the payload tokens, built from descriptors (independent of the
/// objects inside the container).
#[derive(Clone, Copy, PartialEq, Eq, PartialOrd, Ord)]
struct DK(u8, u8);
#[derive(Clone, Copy, PartialEq, Eq, PartialOrd, Ord)]
struct DV(u8);
impl fmt::Debug for DK {
    fn fmt(&self, f: &mut fmt::Formatter<'_>) -> fmt::Result {
        write!(f, "k{}t{}", self.0, self.1)
    }
}
impl fmt::Debug for DV {
    fn fmt(&self, f: &mut fmt::Formatter<'_>) -> fmt::Result {
        write!(f, "v{}", self.0)
    }
}
impl fmt::Display for DK {
    fn fmt(&self, f: &mut fmt::Formatter<'_>) -> fmt::Result {
        write!(f, "K{}T{}", self.0, self.1)
    }
}
impl fmt::Display for DV {
    fn fmt(&self, f: &mut fmt::Formatter<'_>) -> fmt::Result {
        write!(f, "V{}", self.0)
    }
}

struct AsMap<'a>(&'a [(DK, DV)]);
impl fmt::Debug for AsMap<'_> {
    fn fmt(&self, f: &mut fmt::Formatter<'_>) -> fmt::Result {
        f.debug_map().entries(self.0.iter().map(|(k, v)| (k, v))).finish()
    }
}
struct AsSet<'a>(&'a [DK]);
impl fmt::Debug for AsSet<'_> {
    fn fmt(&self, f: &mut fmt::Formatter<'_>) -> fmt::Result {
        f.debug_set().entries(self.0.iter()).finish()
    }
}
#[derive(Clone, PartialEq, Eq, PartialOrd, Ord)]
enum Item {
    KV(DK, DV),
    K(DK),
    V(DV),
}
impl fmt::Debug for Item {
    fn fmt(&self, f: &mut fmt::Formatter<'_>) -> fmt::Result {
        match self {
            Item::KV(k, v) => f.debug_tuple("").field(k).field(v).finish(),
            Item::K(k) => k.fmt(f),
            Item::V(v) => v.fmt(f),
        }
    }
}
struct AsList<'a>(&'a [Item]);
impl fmt::Debug for AsList<'_> {
    fn fmt(&self, f: &mut fmt::Formatter<'_>) -> fmt::Result {
        f.debug_list().entries(self.0.iter()).finish()
    }
}

/// Parse the tokens out of an iterator's Debug string: k<d>t<d> and v<d>.
fn parse_items(s: &str, shape: u8) -> Option<Vec<Item>> {
    let b = s.as_bytes();
    let mut toks: Vec<Item> = Vec::new();
    let mut i = 0;
    let num = |i: &mut usize| -> Option<u8> {
        let st = *i;
        while *i < b.len() && b[*i].is_ascii_digit() {
            *i += 1;
        }
        std::str::from_utf8(&b[st..*i]).ok()?.parse().ok()
    };
    while i < b.len() {
        match b[i] {
            b'k' => {
                i += 1;
                let k = num(&mut i)?;
                if i >= b.len() || b[i] != b't' {
                    return None;
                }
                i += 1;
                let t = num(&mut i)?;
                toks.push(Item::K(DK(k, t)));
            }
            b'v' => {
                i += 1;
                let v = num(&mut i)?;
                toks.push(Item::V(DV(v)));
            }
            _ => i += 1,
        }
    }
    match shape {
        0 => {
            // pairs
            if toks.len() % 2 != 0 {
                return None;
            }
            let mut out = Vec::new();
            for c in toks.chunks(2) {
                match (&c[0], &c[1]) {
                    (Item::K(k), Item::V(v)) => out.push(Item::KV(*k, *v)),
                    _ => return None,
                }
            }
            Some(out)
        }
        1 => toks.iter().all(|t| matches!(t, Item::K(_))).then_some(toks),
        _ => toks.iter().all(|t| matches!(t, Item::V(_))).then_some(toks),
    }
}

/// Judge the Debug rendering of an iterator: `remaining` is what it must still yield.
fn judge_iter_debug(cx: &mut Ctx, name: &str, plain: String, pretty: String, remaining: &[Item], shape: u8) {
    cx.evaluations += 1;
    match parse_items(&plain, shape) {
        None => cx.violate(PM, format!("{name}: Debug output {plain:?} is not a list of entries")),
        Some(items) => {
            let rerender = format!("{:?}", AsList(&items));
            cx.check(PM, rerender == plain, || format!("{name}: Debug output {plain:?} is not std's list rendering {rerender:?}"));
            let rerender_pretty = format!("{:#?}", AsList(&items));
            cx.check(PM, rerender_pretty == pretty, || format!("{name}: alternate Debug output {pretty:?} is not std's rendering {rerender_pretty:?}"));
            let mut a = items.clone();
            a.sort();
            let mut b = remaining.to_vec();
            b.sort();
            cx.check(PM, a == b, || format!("{name}: Debug lists {items:?} but the entries not yet yielded are {remaining:?}"));
        }
    }
}

fn dk(k: &KD) -> DK {
    DK(k.k, k.tag)
}

/// Structured element types: keys `(u8, u8)` and values `Option<(u8, u8)>`, whose own pretty Debug
/// spans several lines, so that nesting/indentation of `{:#?}` is exercised. The container is
/// rebuilt from the state's (key, tag, value) sequence; expected strings come from std's builders
/// over the entry sequence the container itself reports (iteration order is not assumed).
/// Is `shown` std's list rendering (`{:?}` or `{:#?}`) of `items` in SOME order? The property fixes no
/// order between what an iterator displays and what it goes on to yield, only the set of entries.
fn list_in_some_order<T: fmt::Debug>(shown: &str, items: &[T], pretty: bool) -> bool {
    fn rec<T: fmt::Debug>(shown: &str, items: &[T], pretty: bool, perm: &mut Vec<usize>, used: &mut Vec<bool>) -> bool {
        if perm.len() == items.len() {
            let v: Vec<&T> = perm.iter().map(|i| &items[*i]).collect();
            let r = if pretty { format!("{v:#?}") } else { format!("{v:?}") };
            return r == shown;
        }
        for i in 0..items.len() {
            if !used[i] {
                used[i] = true;
                perm.push(i);
                if rec(shown, items, pretty, perm, used) {
                    return true;
                }
                perm.pop();
                used[i] = false;
            }
        }
        false
    }
    if items.len() > 6 {
        return true; // out of the enumerated bounds
    }
    rec(shown, items, pretty, &mut Vec::new(), &mut vec![false; items.len()])
}

/// Zero-sized keys and values: `Map<(), (), N>` / `Set<(), N>` hold at most one entry, whose address range
/// is empty - pointer-range loops see nothing there. Containers and every iterator kind, before and after
/// the entry was yielded.
fn zst_formatting<const N: usize>(cx: &mut Ctx) {
    if N == 0 {
        return;
    }
    cx.here.op = "Debug/Display of containers and iterators with zero-sized keys and values".into();
    let mut m: Map<(), (), N> = Map::new();
    m.insert((), ());
    let mut s: Set<(), N> = Set::new();
    s.insert(());
    macro_rules! same {
        ($what:expr, $got:expr, $want:expr) => {{
            let (g, w) = ($got, $want);
            cx.check(PM, g == w, || format!("{} (zero-sized elements): rendered {g:?}, expected {w:?}", $what));
        }};
    }
    same!("Map {:?}", format!("{m:?}"), "{(): ()}".to_string());
    same!("Map {}", format!("{:?}", format!("{m:#?}").contains("()")), "true".to_string());
    same!("Set {:?}", format!("{s:?}"), "{()}".to_string());
    for j in 0..=1usize {
        let rest_kv: Vec<((), ())> = if j == 0 { vec![((), ())] } else { vec![] };
        let rest_k: Vec<()> = if j == 0 { vec![()] } else { vec![] };
        let mut it = m.iter();
        let mut ks = m.keys();
        let mut vs = m.values();
        let mut si = s.iter();
        for _ in 0..j {
            it.next();
            ks.next();
            vs.next();
            si.next();
        }
        same!(format!("Iter after {j}"), format!("{it:?}"), format!("{:?}", rest_kv.iter().map(|(a, b)| (a, b)).collect::<Vec<_>>()));
        same!(format!("Keys after {j}"), format!("{ks:?}"), format!("{:?}", rest_k.iter().collect::<Vec<_>>()));
        same!(format!("Values after {j}"), format!("{vs:?}"), format!("{:?}", rest_k.iter().collect::<Vec<_>>()));
        let mut m2 = m.clone();
        let mut im = m2.iter_mut();
        for _ in 0..j {
            im.next();
        }
        same!(format!("IterMut after {j}"), format!("{im:?}"), format!("{:?}", rest_kv.iter().map(|(a, b)| (a, b)).collect::<Vec<_>>()));
        drop(im);
        let mut vm = m2.values_mut();
        for _ in 0..j {
            vm.next();
        }
        same!(format!("ValuesMut after {j}"), format!("{vm:?}"), format!("{:?}", rest_k.iter().collect::<Vec<_>>()));
        drop(vm);
        let mut ii = m.clone().into_iter();
        let mut ik = m.clone().into_keys();
        let mut iv = m.clone().into_values();
        let mut dr = m2.drain();
        for _ in 0..j {
            ii.next();
            ik.next();
            iv.next();
            dr.next();
        }
        same!(format!("IntoIter after {j}"), format!("{ii:?}"), format!("{:?}", rest_kv.iter().map(|(a, b)| (a, b)).collect::<Vec<_>>()));
        same!(format!("IntoKeys after {j}"), format!("{ik:?}"), format!("{:?}", rest_k.iter().collect::<Vec<_>>()));
        same!(format!("IntoValues after {j}"), format!("{iv:?}"), format!("{:?}", rest_k.iter().collect::<Vec<_>>()));
        same!(format!("Drain after {j}"), format!("{dr:?}"), format!("{:?}", rest_kv.iter().map(|(a, b)| (a, b)).collect::<Vec<_>>()));
        drop(dr);
        let other: Set<(), N> = Set::new();
        let mut d = s.difference(&other);
        let mut u = s.union(&other);
        let mut x = s.symmetric_difference(&other);
        let mut n = s.intersection(&s);
        for _ in 0..j {
            d.next();
            u.next();
            x.next();
            n.next();
        }
        same!(format!("Difference after {j}"), format!("{d:?}"), format!("{:?}", rest_k.iter().collect::<Vec<_>>()));
        same!(format!("Union after {j}"), format!("{u:?}"), format!("{:?}", rest_k.iter().collect::<Vec<_>>()));
        same!(format!("SymmetricDifference after {j}"), format!("{x:?}"), format!("{:?}", rest_k.iter().collect::<Vec<_>>()));
        same!(format!("Intersection after {j}"), format!("{n:?}"), format!("{:?}", rest_k.iter().collect::<Vec<_>>()));
    }
}

fn structured<const N: usize>(order: &[(DK, DV)], cx: &mut Ctx) {
    type K2 = (u8, u8);
    type V2 = Option<(u8, u8)>;
    let mk_v = |v: u8| -> V2 { if v % 2 == 0 { Some((v, v + 1)) } else { None } };
    let mut m: Map<K2, V2, N> = Map::new();
    let mut s: Set<K2, N> = Set::new();
    for (k, v) in order {
        m.insert((k.0, k.1), mk_v(v.0));
        s.insert((k.0, k.1));
    }
    cx.here.op = "Debug of containers and iterators with structured (multi-line) elements".into();
    struct M<'a>(Vec<(&'a K2, &'a V2)>);
    impl fmt::Debug for M<'_> {
        fn fmt(&self, f: &mut fmt::Formatter<'_>) -> fmt::Result {
            f.debug_map().entries(self.0.iter().map(|(k, v)| (*k, *v))).finish()
        }
    }
    struct S<'a>(Vec<&'a K2>);
    impl fmt::Debug for S<'_> {
        fn fmt(&self, f: &mut fmt::Formatter<'_>) -> fmt::Result {
            f.debug_set().entries(self.0.iter()).finish()
        }
    }
    macro_rules! same {
        ($what:expr, $got:expr, $want:expr) => {{
            let (g, w) = ($got, $want);
            cx.check(PM, g == w, || format!("{}: rendered {g:?}, std renders the same entries as {w:?}", $what));
        }};
    }
    let mm = M(m.iter().collect());
    same!("Map {:?} (structured elements)", format!("{m:?}"), format!("{mm:?}"));
    same!("Map {:#?} (structured elements)", format!("{m:#?}"), format!("{mm:#?}"));
    same!("Map {:12?} (structured elements)", format!("{m:12?}"), format!("{mm:12?}"));
    same!("Map {:#12?} (structured elements)", format!("{m:#12?}"), format!("{mm:#12?}"));
    let ss = S(s.iter().collect());
    same!("Set {:?} (structured elements)", format!("{s:?}"), format!("{ss:?}"));
    same!("Set {:#?} (structured elements)", format!("{s:#?}"), format!("{ss:#?}"));
    // nested containers: a map whose values are sets
    {
        let mut outer: Map<u8, Set<K2, N>, 2> = Map::new();
        outer.insert(1, s.clone());
        outer.insert(2, Set::new());
        struct O<'a, const N: usize>(&'a Map<u8, Set<K2, N>, 2>);
        impl<const N: usize> fmt::Debug for O<'_, N> {
            fn fmt(&self, f: &mut fmt::Formatter<'_>) -> fmt::Result {
                f.debug_map().entries(self.0.iter().map(|(k, v)| (k, S(v.iter().collect())))).finish()
            }
        }
        same!("nested Map<u8, Set> {:#?}", format!("{outer:#?}"), format!("{:#?}", O(&outer)));
        same!("nested Map<u8, Set> {:?}", format!("{outer:?}"), format!("{:?}", O(&outer)));
    }
    // iterators at every prefix: what they show must be std's list rendering of what they go on to yield
    let n = order.len();
    for j in 0..=n {
        let mut it = m.iter();
        let mut ks = m.keys();
        let mut vs = m.values();
        let mut si = s.iter();
        for _ in 0..j {
            it.next();
            ks.next();
            vs.next();
            si.next();
        }
        macro_rules! shows {
            ($what:expr, $shown:expr, $rest:expr, $pretty:expr) => {{
                let (sh, rest) = ($shown, $rest);
                cx.check(PM, list_in_some_order(&sh, &rest, $pretty), || {
                    format!("{} after {j} items (structured elements) shows {sh:?}, which is not std's list rendering of the entries still to come {rest:?} in any order", $what)
                });
            }};
        }
        shows!("Iter {:#?}", format!("{it:#?}"), it.clone().collect::<Vec<_>>(), true);
        shows!("Iter {:?}", format!("{it:?}"), it.clone().collect::<Vec<_>>(), false);
        shows!("Keys {:#?}", format!("{ks:#?}"), ks.clone().collect::<Vec<_>>(), true);
        shows!("Values {:#?}", format!("{vs:#?}"), vs.clone().collect::<Vec<_>>(), true);
        shows!("SetIter", format!("{:#?}", si.clone().collect::<Vec<_>>()), si.clone().collect::<Vec<_>>(), true);
        let mut mm2 = m.clone();
        let mut im = mm2.iter_mut();
        for _ in 0..j {
            im.next();
        }
        let shown = format!("{im:#?}");
        let rest: Vec<(K2, V2)> = im.map(|(k, v)| (*k, *v)).collect();
        shows!("IterMut {:#?}", shown, rest.iter().map(|(k, v)| (k, v)).collect::<Vec<_>>(), true);
        let mut vm = mm2.values_mut();
        for _ in 0..j {
            vm.next();
        }
        let shown = format!("{vm:#?}");
        let rest: Vec<V2> = vm.map(|v| *v).collect();
        shows!("ValuesMut {:#?}", shown, rest.iter().collect::<Vec<_>>(), true);
        let mut ii = m.clone().into_iter();
        for _ in 0..j {
            ii.next();
        }
        let shown = format!("{ii:#?}");
        let rest: Vec<(K2, V2)> = ii.collect();
        shows!("IntoIter {:#?}", shown, rest.iter().map(|(k, v)| (k, v)).collect::<Vec<_>>(), true);
        let mut ik = m.clone().into_keys();
        for _ in 0..j {
            ik.next();
        }
        let shown = format!("{ik:?}");
        let rest: Vec<K2> = ik.collect();
        shows!("IntoKeys {:?}", shown, rest.iter().collect::<Vec<_>>(), false);
        let mut iv = m.clone().into_values();
        for _ in 0..j {
            iv.next();
        }
        let shown = format!("{iv:#?}");
        let rest: Vec<V2> = iv.collect();
        shows!("IntoValues {:#?}", shown, rest.iter().collect::<Vec<_>>(), true);
        let mut mm3 = m.clone();
        let mut dr = mm3.drain();
        for _ in 0..j {
            dr.next();
        }
        let shown = format!("{dr:#?}");
        let rest: Vec<(K2, V2)> = dr.collect();
        shows!("Drain {:#?}", shown, rest.iter().map(|(k, v)| (k, v)).collect::<Vec<_>>(), true);
        // set algebra iterators against a right operand holding every other element
        let mut r: Set<K2, N> = Set::new();
        for (i, (k, _)) in order.iter().enumerate() {
            if i % 2 == 0 {
                r.insert((k.0, k.1));
            }
        }
        macro_rules! alg {
            ($name:expr, $mk:expr) => {{
                let mut a = $mk;
                for _ in 0..j {
                    a.next();
                }
                shows!($name, format!("{a:#?}"), a.clone().collect::<Vec<_>>(), true);
            }};
        }
        alg!("Difference", s.difference(&r));
        alg!("Intersection", s.intersection(&r));
        alg!("Union", s.union(&r));
        alg!("SymmetricDifference", s.symmetric_difference(&r));
    }
}

/// Elements whose text is one long piece (String / &str of 0, 1, 3, 63, 64, 65, 70, 130 bytes) in
/// every slot order the state space offers: a formatter that stages small pieces in a fixed buffer,
/// or treats long pieces specially, must still emit everything in order. Display is '{' + entries
/// joined by ", " + '}' ('key: value' for maps); Debug is std's debug_map / debug_set rendering.
fn long_elements<const N: usize>(order: &[(DK, DV)], cx: &mut Ctx) {
    const KL: [usize; 8] = [3, 70, 0, 64, 65, 130, 1, 63];
    const VL: [usize; 4] = [65, 2, 0, 64];
    let key = |k: &DK| -> String { std::iter::repeat((b'a' + k.0 % 8) as char).take(KL[(k.0 % 8) as usize]).collect() };
    let val = |v: &DV| -> String { std::iter::repeat((b'A' + v.0 % 4) as char).take(VL[(v.0 % 4) as usize]).collect() };
    let texts: Vec<(String, String)> = order.iter().map(|(k, v)| (key(k), val(v))).collect();
    let mut m: Map<String, String, N> = Map::new();
    let mut s: Set<String, N> = Set::new();
    let mut sr: Set<&str, N> = Set::new();
    for (k, v) in &texts {
        m.insert(k.clone(), v.clone());
        s.insert(k.clone());
        sr.insert(k.as_str());
    }
    cx.here.op = "Display / Debug of containers whose elements render as one long piece".into();
    let mo: Vec<(&String, &String)> = m.iter().collect();
    let so: Vec<&String> = s.iter().collect();
    let sro: Vec<&&str> = sr.iter().collect();
    let want_m = format!("{{{}}}", mo.iter().map(|(k, v)| format!("{k}: {v}")).collect::<Vec<_>>().join(", "));
    let want_s = format!("{{{}}}", so.iter().map(|k| k.to_string()).collect::<Vec<_>>().join(", "));
    let want_sr = format!("{{{}}}", sro.iter().map(|k| k.to_string()).collect::<Vec<_>>().join(", "));
    let short = |x: &str| -> String { if x.len() > 120 { format!("{}...({} bytes)", &x[..120], x.len()) } else { x.to_string() } };
    macro_rules! same {
        ($what:expr, $got:expr, $want:expr) => {{
            let (g, w): (String, String) = ($got, $want);
            cx.check(PM, g == w, || format!("{}: rendered {:?}, expected {:?}", $what, short(&g), short(&w)));
        }};
    }
    same!("Map<String,String> {} (long pieces)", format!("{m}"), want_m.clone());
    same!("Set<String> {} (long pieces)", format!("{s}"), want_s.clone());
    same!("Set<&str> {} (long pieces)", format!("{sr}"), want_sr);
    // through a sink that receives the pieces one write_str at a time (no intermediate String)
    {
        use fmt::Write;
        struct Pieces(String, usize);
        impl fmt::Write for Pieces {
            fn write_str(&mut self, p: &str) -> fmt::Result {
                self.0.push_str(p);
                self.1 += 1;
                Ok(())
            }
        }
        let mut p = Pieces(String::new(), 0);
        let r = write!(p, "{s}");
        cx.check(PM, r.is_ok() && p.0 == want_s, || format!("Set<String> Display into a piecewise sink: {:?}, expected {:?}", short(&p.0), short(&want_s)));
        let mut p = Pieces(String::new(), 0);
        let r = write!(p, "{m}");
        cx.check(PM, r.is_ok() && p.0 == want_m, || format!("Map<String,String> Display into a piecewise sink: {:?}, expected {:?}", short(&p.0), short(&want_m)));
    }
    struct M<'a>(&'a [(&'a String, &'a String)]);
    impl fmt::Debug for M<'_> {
        fn fmt(&self, f: &mut fmt::Formatter<'_>) -> fmt::Result {
            f.debug_map().entries(self.0.iter().map(|(k, v)| (*k, *v))).finish()
        }
    }
    struct S<'a>(&'a [&'a String]);
    impl fmt::Debug for S<'_> {
        fn fmt(&self, f: &mut fmt::Formatter<'_>) -> fmt::Result {
            f.debug_set().entries(self.0.iter()).finish()
        }
    }
    same!("Map<String,String> {:?} (long pieces)", format!("{m:?}"), format!("{:?}", M(&mo)));
    same!("Map<String,String> {:#?} (long pieces)", format!("{m:#?}"), format!("{:#?}", M(&mo)));
    same!("Set<String> {:?} (long pieces)", format!("{s:?}"), format!("{:?}", S(&so)));
    same!("Set<String> {:#?} (long pieces)", format!("{s:#?}"), format!("{:#?}", S(&so)));
}

fn per_state<const N: usize>(sys: &MapSys<Kx, Vx, N>, path: &[u32], cx: &mut Ctx) {
    let mut b = sys.build(path, cx);
    let entries: Vec<(KD, VD)> = b.bx.c.iter().map(|(k, v)| (k.desc(), v.desc())).collect();
    let model_sorted = {
        let mut e = b.model.entries();
        e.sort();
        e
    };
    {
        let mut e = entries.clone();
        e.sort();
        cx.check(PM, e == model_sorted, || "iteration disagrees with the model (state not trustworthy)".to_string());
    }
    let order: Vec<(DK, DV)> = entries.iter().map(|(k, v)| (dk(k), DV(v.v))).collect();
    structured::<N>(&order, cx);
    long_elements::<N>(&order, cx);
    if order.is_empty() {
        zst_formatting::<N>(cx);
    }
    let c0 = pl::counts();
    cx.here.op = "Map Debug/Display".into();
    cx.evaluations += 1;
    if !entries.is_empty() {
        cx.nontrivial += 1;
    }
    // containers
    {
        let m: &Map<Kx, Vx, N> = &b.bx.c;
        let got = format!("{m:?}");
        let want = format!("{:?}", AsMap(&order));
        cx.check(PM, got == want, || format!("Map {{:?}} is {got:?}, std renders the entries as {want:?}"));
        let got = format!("{m:#?}");
        let want = format!("{:#?}", AsMap(&order));
        cx.check(PM, got == want, || format!("Map {{:#?}} is {got:?}, std renders the entries as {want:?}"));
        let got = format!("{m}");
        let want = format!("{{{}}}", order.iter().map(|(k, v)| format!("{k}: {v}")).collect::<Vec<_>>().join(", "));
        cx.check(PM, got == want, || format!("Map Display is {got:?}, expected {want:?}"));
        // format specifications must not change Display (it writes its pieces itself) and must
        // act on Debug exactly as they act on std's builders
        macro_rules! specs {
            ($($spec:literal),*) => {$(
                let got = format!(concat!("{:", $spec, "}"), m);
                cx.check(PM, got == want, || format!("Map Display with spec {:?} is {got:?}, expected {want:?}", $spec));
                let got = format!(concat!("{:", $spec, "?}"), m);
                let w = format!(concat!("{:", $spec, "?}"), AsMap(&order));
                cx.check(PM, got == w, || format!("Map Debug with spec {:?} is {got:?}, std renders {w:?}", $spec));
            )*};
        }
        specs!("40", ">40", "*^7", ".2", "+", "#", "012", "<#12");
    }
    // borrowing iterators at every prefix
    let kv_items: Vec<Item> = order.iter().map(|(k, v)| Item::KV(*k, *v)).collect();
    let k_items: Vec<Item> = order.iter().map(|(k, _)| Item::K(*k)).collect();
    let v_items: Vec<Item> = order.iter().map(|(_, v)| Item::V(*v)).collect();
    let n = order.len();
    macro_rules! direct {
        ($name:expr, $mk:expr, $proj:expr, $all:expr, $shape:expr) => {{
            for j in 0..=n {
                cx.here.op = format!("{} Debug after {j} items", $name);
                let mut it = $mk;
                let mut yielded: Vec<Item> = Vec::new();
                for _ in 0..j {
                    if let Some(x) = it.next() {
                        yielded.push(($proj)(x));
                    }
                }
                let plain = format!("{it:?}");
                let pretty = format!("{it:#?}");
                drop(it);
                let mut remaining: Vec<Item> = $all.clone();
                for y in &yielded {
                    if let Some(p) = remaining.iter().position(|r| r == y) {
                        remaining.remove(p);
                    }
                }
                judge_iter_debug(cx, $name, plain, pretty, &remaining, $shape);
            }
        }};
    }
    {
        let m: &mut Map<Kx, Vx, N> = &mut b.bx.c;
        direct!("Iter", m.iter(), |(k, v): (&Kx, &Vx)| Item::KV(dk(&k.desc()), DV(v.desc().v)), kv_items, 0);
        direct!("Keys", m.keys(), |k: &Kx| Item::K(dk(&k.desc())), k_items, 1);
        direct!("Values", m.values(), |v: &Vx| Item::V(DV(v.desc().v)), v_items, 2);
        direct!("IterMut", m.iter_mut(), |(k, v): (&Kx, &mut Vx)| Item::KV(dk(&k.desc()), DV(v.desc().v)), kv_items, 0);
        direct!("ValuesMut", m.values_mut(), |v: &mut Vx| Item::V(DV(v.desc().v)), v_items, 2);
    }
    let c1 = pl::counts();
    cx.check(PM, c1[pl::Cb::Clone as usize] == c0[pl::Cb::Clone as usize] && c1[pl::Cb::Drop as usize] == c0[pl::Cb::Drop as usize], || {
        "formatting cloned or destroyed an element".to_string()
    });
    let after: Vec<(KD, VD)> = b.bx.c.iter().map(|(k, v)| (k.desc(), v.desc())).collect();
    cx.check(PM, after == entries, || "formatting changed the container".to_string());
    flush_ledger(cx, PM | C02, "formatting (a dead or uninitialised slot was formatted)");
    // consuming iterators and drain: rebuild for each prefix
    for kind in 0..4u8 {
        for j in 0..=n {
            let name = ["IntoIter", "IntoKeys", "IntoValues", "Drain"][kind as usize];
            cx.here.op = format!("{name} Debug after {j} items");
            let mut bb = sys.build(path, cx);
            let mut held_k: Vec<Kx> = Vec::new();
            let mut held_v: Vec<Vx> = Vec::new();
            let mut yielded: Vec<Item> = Vec::new();
            let (plain, pretty, all, shape) = match kind {
                0 => {
                    let mut it = std::mem::take(&mut bb.bx.c).into_iter();
                    for _ in 0..j {
                        if let Some((k, v)) = it.next() {
                            yielded.push(Item::KV(dk(&k.desc()), DV(v.desc().v)));
                            held_k.push(k);
                            held_v.push(v);
                        }
                    }
                    (format!("{it:?}"), format!("{it:#?}"), kv_items.clone(), 0)
                }
                1 => {
                    let mut it = std::mem::take(&mut bb.bx.c).into_keys();
                    for _ in 0..j {
                        if let Some(k) = it.next() {
                            yielded.push(Item::K(dk(&k.desc())));
                            held_k.push(k);
                        }
                    }
                    (format!("{it:?}"), format!("{it:#?}"), k_items.clone(), 1)
                }
                2 => {
                    let mut it = std::mem::take(&mut bb.bx.c).into_values();
                    for _ in 0..j {
                        if let Some(v) = it.next() {
                            yielded.push(Item::V(DV(v.desc().v)));
                            held_v.push(v);
                        }
                    }
                    (format!("{it:?}"), format!("{it:#?}"), v_items.clone(), 2)
                }
                _ => {
                    let mut it = bb.bx.c.drain();
                    for _ in 0..j {
                        if let Some((k, v)) = it.next() {
                            yielded.push(Item::KV(dk(&k.desc()), DV(v.desc().v)));
                            held_k.push(k);
                            held_v.push(v);
                        }
                    }
                    (format!("{it:?}"), format!("{it:#?}"), kv_items.clone(), 0)
                }
            };
            let mut remaining = all;
            for y in &yielded {
                if let Some(p) = remaining.iter().position(|r| r == y) {
                    remaining.remove(p);
                }
            }
            judge_iter_debug(cx, name, plain, pretty, &remaining, shape);
            flush_ledger(cx, PM | C02, "formatting a consuming iterator (a moved-out slot was formatted)");
            drop(held_k);
            drop(held_v);
            drop(bb);
            pl::take_violations();
        }
    }
    // Set containers and the set-algebra iterators
    {
        pl::reset();
        let keys: Vec<(u8, u8)> = order.iter().map(|(k, _)| (k.0, k.1)).collect();
        let mut s = Set::<Kx, N>::new();
        for (k, t) in &keys {
            s.insert(Kx::new(*k, *t));
        }
        let sorder: Vec<DK> = s.iter().map(|k| dk(&k.desc())).collect();
        cx.here.op = "Set Debug/Display".into();
        let got = format!("{s:?}");
        let want = format!("{:?}", AsSet(&sorder));
        cx.check(PM, got == want, || format!("Set {{:?}} is {got:?}, std renders the elements as {want:?}"));
        let got = format!("{s:#?}");
        let want = format!("{:#?}", AsSet(&sorder));
        cx.check(PM, got == want, || format!("Set {{:#?}} is {got:?}, std renders the elements as {want:?}"));
        let got = format!("{s}");
        let want = format!("{{{}}}", sorder.iter().map(|k| format!("{k}")).collect::<Vec<_>>().join(", "));
        cx.check(PM, got == want, || format!("Set Display is {got:?}, expected {want:?}"));
        macro_rules! sspecs {
            ($($spec:literal),*) => {$(
                let got = format!(concat!("{:", $spec, "}"), s);
                cx.check(PM, got == want, || format!("Set Display with spec {:?} is {got:?}, expected {want:?}", $spec));
                let got = format!(concat!("{:", $spec, "?}"), s);
                let w = format!(concat!("{:", $spec, "?}"), AsSet(&sorder));
                cx.check(PM, got == w, || format!("Set Debug with spec {:?} is {got:?}, std renders {w:?}", $spec));
            )*};
        }
        sspecs!("40", ">40", "*^7", ".2", "+", "#", "012", "<#12");
        // algebra iterators against every subset of the universe as right operand
        let nk = sys.nk;
        for mask in 0..(1u16 << nk) {
            let mut r = Set::<Kx, 6>::new();
            for k in 0..nk {
                if mask & (1 << k) != 0 {
                    r.insert(Kx::new(k, 1));
                }
            }
            macro_rules! alg {
                ($name:expr, $mk:expr) => {{
                    let total = { $mk }.count();
                    for j in 0..=total {
                        cx.here.op = format!("{} (right operand mask {mask:#b}) Debug after {j} items", $name);
                        let mut it = $mk;
                        for _ in 0..j {
                            it.next();
                        }
                        let plain = format!("{it:?}");
                        let pretty = format!("{it:#?}");
                        let remaining: Vec<Item> = it.map(|k| Item::K(dk(&k.desc()))).collect();
                        judge_iter_debug(cx, $name, plain, pretty, &remaining, 1);
                    }
                }};
            }
            alg!("Union", s.union(&r));
            alg!("Intersection", s.intersection(&r));
            alg!("Difference", s.difference(&r));
            alg!("SymmetricDifference", s.symmetric_difference(&r));
            // difference_ref on sets of references
            let pool_l: Vec<Kx> = keys.iter().map(|(k, t)| Kx::new(*k, *t)).collect();
            let pool_r: Vec<Kx> = (0..nk).filter(|k| mask & (1 << k) != 0).map(|k| Kx::new(k, 1)).collect();
            let mut ls: Set<&Kx, N> = Set::new();
            for k in &pool_l {
                ls.insert(k);
            }
            let mut rs: Set<&Kx, 6> = Set::new();
            for k in &pool_r {
                rs.insert(k);
            }
            alg!("DifferenceRef", ls.difference_ref(&rs));
        }
        flush_ledger(cx, PM | C02, "formatting sets");
    }
    cx.sample(|| J::obj().set("state", format!("{:?}", AsMap(&order))).set("rendered", "Map/Set {:?} {:#?} {} and every iterator kind at every prefix"));
}

fn run_n<const N: usize>(rep: &mut EngineReport, nk: u8, nv: u8, threads: usize, replay: Option<Vec<u32>>) -> i32 {
    let sys = MapSys::<Kx, Vx, N>::new(nk, nv, Alpha::Gen);
    let config = format!("formatting of Map<Kx,Vx,{N}> / Set<Kx,{N}> and their iterators; keys={} values={}", sys.nk, sys.nv);
    if let Some(path) = replay {
        let mut cx = Ctx::new(rep.cx.enabled);
        cx.here.config = config.clone();
        cx.here.path = path.iter().map(|i| sys.ops[*i as usize].to_string()).collect();
        per_state::<N>(&sys, &path, &mut cx);
        let v: Vec<J> = cx.best.iter().flatten().map(|b| b.to_json()).collect();
        let n = v.len();
        println!("{}", J::obj().set("config", config).set("violations", J::Arr(v)).dump());
        return i32::from(n > 0);
    }
    let t0 = std::time::Instant::now();
    let mut q = Ctx::new(0);
    let out = bfs(&sys, threads, &Caps::default(), &mut q);
    let mut cx = rep.cx.fork();
    cx.here.config = config.clone();
    par_states(out.states.len(), threads, &mut cx, |s, lcx| {
        let path = out.path_of(s);
        lcx.here.path_idx = path.clone();
        lcx.here.path = path.iter().map(|i| sys.ops[*i as usize].to_string()).collect();
        crumb("fmt_mc state");
        per_state::<N>(&sys, &path, lcx);
    });
    rep.configs.push(J::obj().set("config", config).set("states", out.states.len()).set("wall_s", t0.elapsed().as_secs_f64()));
    rep.states += out.states.len() as u64;
    rep.transitions += cx.evaluations;
    rep.cx.merge(cx);
    0
}

fn main() {
    let args = Args::from_env();
    silence_panics();
    install_crash_handler(args.get("crumb"));
    let mut rep = EngineReport::new("fmt_mc", args.props());
    let ns = args.list_usize("n", &[0, 1, 2, 3]);
    let nv = args.usize("v", 2) as u8;
    let threads = args.threads();
    if let Some(p) = args.get("replay-path") {
        let path = mc::bfs::parse_idx_list(p);
        let n = ns[0];
        let code = mc::with_n!(n, run_n::<>(&mut rep, (n + 1) as u8, nv, threads, Some(path)));
        std::process::exit(code);
    }
    for n in ns {
        mc::with_n!(n, run_n::<>(&mut rep, (n + 1) as u8, nv, threads, None));
    }
    std::process::exit(rep.finish(args.get("out")));
}
