//! Explicit-state model checking of the real micromap implementation: shared machinery.
#![allow(clippy::type_complexity)]
#![allow(unexpected_cfgs)]

pub mod bfs;
pub mod ctx;
pub mod json;
pub mod mapsys;
pub mod payload;
pub mod subject;
pub mod survivor;

/// Dispatch a const-generic function over the capacities we instantiate.
#[macro_export]
macro_rules! with_n {
    ($n:expr, $f:ident :: < $($t:ty),* > ( $($a:expr),* )) => {
        match $n {
            0 => $f::<$($t,)* 0>($($a),*),
            1 => $f::<$($t,)* 1>($($a),*),
            2 => $f::<$($t,)* 2>($($a),*),
            3 => $f::<$($t,)* 3>($($a),*),
            4 => $f::<$($t,)* 4>($($a),*),
            5 => $f::<$($t,)* 5>($($a),*),
            6 => $f::<$($t,)* 6>($($a),*),
            n => panic!("capacity {n} is not instantiated"),
        }
    };
}
pub mod setsys;
