//! Judgement context: per-property check counters, violations, outcome-class histogram,
//! samples; canary placement; crash breadcrumbs; engine report writing.

use crate::json::J;
use std::collections::BTreeMap;
use std::time::Instant;

pub type PMask = u32;
pub const fn p(n: u32) -> PMask {
    1 << n
}
pub const C01: PMask = p(1);
pub const C02: PMask = p(2);
pub const C03: PMask = p(3);
pub const C04: PMask = p(4);
pub const C05: PMask = p(5);
pub const C06: PMask = p(6);
pub const C07: PMask = p(7);
pub const C08: PMask = p(8);
pub const C09: PMask = p(9);
pub const C10: PMask = p(10);
pub const C11: PMask = p(11);
pub const C12: PMask = p(12);
pub const C13: PMask = p(13);
pub const C14: PMask = p(14);
pub const C15: PMask = p(15);
pub const C16: PMask = p(16);
pub const C17: PMask = p(17);
pub const C18: PMask = p(18);
pub const C19: PMask = p(19);
pub const C20: PMask = p(20);
pub const NPROPS: usize = 21;

pub fn pname(i: usize) -> String {
    format!("C{i:02}")
}
pub fn mask_names(m: PMask) -> Vec<String> {
    (1..NPROPS).filter(|i| m & (1 << i) != 0).map(pname).collect()
}

#[derive(Clone, Debug)]
pub struct Violation {
    pub props: PMask,
    pub config: String,
    /// indices into the engine's alphabet (replayable) and their rendering
    pub path_idx: Vec<u32>,
    pub path: Vec<String>,
    pub op_idx: u32,
    pub op: String,
    pub extra: String,
    pub msg: String,
}

impl Violation {
    fn rank(&self) -> (usize, &str, &str) {
        (self.path.len(), self.op.as_str(), self.msg.as_str())
    }
    pub fn to_json(&self) -> J {
        J::obj()
            .set("properties", mask_names(self.props))
            .set("config", self.config.as_str())
            .set("path_idx", self.path_idx.iter().map(|x| *x as i64).collect::<Vec<_>>())
            .set("path", self.path.clone())
            .set("op_idx", self.op_idx)
            .set("op", self.op.as_str())
            .set("extra", self.extra.as_str())
            .set("msg", self.msg.as_str())
    }
}

/// Where we are (set by the engine before running an op) so that a failing check can
/// describe itself without every call site threading the history through.
#[derive(Clone, Default, Debug)]
pub struct Here {
    pub config: String,
    pub path_idx: Vec<u32>,
    pub path: Vec<String>,
    pub op_idx: u32,
    pub op: String,
    pub extra: String,
}

pub struct Ctx {
    pub checks: [u64; NPROPS],
    pub viol_total: [u64; NPROPS],
    pub best: Vec<Option<Violation>>,
    pub classes: BTreeMap<String, u64>,
    pub samples: Vec<J>,
    pub max_samples: usize,
    pub here: Here,
    /// when true, checks are not evaluated (replaying a prefix)
    pub quiet: bool,
    /// restrict judged properties (others are neither counted nor reported)
    pub enabled: PMask,
    pub machinery_errors: Vec<String>,
    pub evaluations: u64,
    /// distinct non-trivial cases (counted by the engines; see each engine's rule)
    pub nontrivial: u64,
    /// violations per (property, operation class): which call sites fail
    pub viol_by_op: BTreeMap<String, u64>,
    /// first violation seen per (property, operation class)
    pub first_by_op: BTreeMap<String, Violation>,
}

impl Default for Ctx {
    fn default() -> Self {
        Ctx::new(!0)
    }
}

impl Ctx {
    pub fn new(enabled: PMask) -> Self {
        Ctx {
            checks: [0; NPROPS],
            viol_total: [0; NPROPS],
            best: vec![None; NPROPS],
            classes: BTreeMap::new(),
            samples: Vec::new(),
            max_samples: 6,
            here: Here::default(),
            quiet: false,
            enabled,
            machinery_errors: Vec::new(),
            evaluations: 0,
            nontrivial: 0,
            viol_by_op: BTreeMap::new(),
            first_by_op: BTreeMap::new(),
        }
    }
    pub fn fork(&self) -> Ctx {
        let mut c = Ctx::new(self.enabled);
        c.max_samples = self.max_samples;
        c.here.config = self.here.config.clone();
        c
    }
    /// Judge `cond` for the properties in `props`.
    #[inline]
    pub fn check(&mut self, props: PMask, cond: bool, msg: impl FnOnce() -> String) -> bool {
        if self.quiet {
            return true;
        }
        let props = props & self.enabled;
        if props == 0 {
            return true;
        }
        for i in 1..NPROPS {
            if props & (1 << i) != 0 {
                self.checks[i] += 1;
            }
        }
        if !cond {
            self.violate(props, msg());
        }
        cond
    }
    pub fn violate(&mut self, props: PMask, msg: String) {
        let props = props & self.enabled;
        if props == 0 || self.quiet {
            return;
        }
        let v = Violation {
            props,
            config: self.here.config.clone(),
            path_idx: self.here.path_idx.clone(),
            path: self.here.path.clone(),
            op_idx: self.here.op_idx,
            op: self.here.op.clone(),
            extra: self.here.extra.clone(),
            msg,
        };
        let opc = v.op.split([' ', '{', '(']).next().unwrap_or("").to_string();
        for i in 1..NPROPS {
            if props & (1 << i) != 0 {
                let key = format!("{}:{}", pname(i), opc);
                *self.viol_by_op.entry(key.clone()).or_insert(0) += 1;
                let better = match self.first_by_op.get(&key) {
                    None => true,
                    Some(b) => v.rank() < b.rank(),
                };
                if better {
                    self.first_by_op.insert(key, v.clone());
                }
                self.viol_total[i] += 1;
                let better = match &self.best[i] {
                    None => true,
                    Some(b) => v.rank() < b.rank(),
                };
                if better {
                    self.best[i] = Some(v.clone());
                }
            }
        }
    }
    #[inline]
    pub fn class(&mut self, name: &str) {
        if self.quiet {
            return;
        }
        if let Some(c) = self.classes.get_mut(name) {
            *c += 1;
        } else {
            self.classes.insert(name.to_string(), 1);
        }
    }
    pub fn sample(&mut self, j: impl FnOnce() -> J) {
        if !self.quiet && self.samples.len() < self.max_samples {
            self.samples.push(j());
        }
    }
    pub fn machinery(&mut self, msg: String) {
        if self.machinery_errors.len() < 20 {
            self.machinery_errors.push(msg);
        }
    }
    pub fn merge(&mut self, o: Ctx) {
        for i in 0..NPROPS {
            self.checks[i] += o.checks[i];
            self.viol_total[i] += o.viol_total[i];
        }
        for (i, b) in o.best.into_iter().enumerate() {
            if let Some(v) = b {
                let better = match &self.best[i] {
                    None => true,
                    Some(b) => v.rank() < b.rank(),
                };
                if better {
                    self.best[i] = Some(v);
                }
            }
        }
        for (k, v) in o.classes {
            *self.classes.entry(k).or_insert(0) += v;
        }
        // keep the first two samples and the latest ones (deeper states come later)
        for s in o.samples {
            if self.samples.len() < self.max_samples {
                self.samples.push(s);
            } else if self.max_samples > 2 {
                self.samples.remove(2);
                self.samples.push(s);
            }
        }
        for (k, v) in o.viol_by_op {
            *self.viol_by_op.entry(k).or_insert(0) += v;
        }
        for (k, v) in o.first_by_op {
            let better = match self.first_by_op.get(&k) {
                None => true,
                Some(b) => v.rank() < b.rank(),
            };
            if better {
                self.first_by_op.insert(k, v);
            }
        }
        self.machinery_errors.extend(o.machinery_errors);
        self.evaluations += o.evaluations;
        self.nontrivial += o.nontrivial;
    }
    pub fn total_violations(&self) -> u64 {
        self.viol_total.iter().sum()
    }
}

// ------------------------------------------------------------------------------------------
// Canary placement: the container under test sits between two guard arrays inside one heap
// block; a contiguous overrun hits a canary (checked after every transition), a far one hits
// the allocator red zone under AddressSanitizer.
// ------------------------------------------------------------------------------------------
const CANARY: u64 = 0xC0FF_EE11_D00D_F00D;
/// Guard words on each side. In the AddressSanitizer build there are none: the container then
/// sits alone in an exact-size heap block, so that an overrun hits the allocator's red zone
/// (an overflow into a neighbouring field of the same object is invisible to ASan).
#[cfg(not(mc_asan))]
pub const CW: usize = 8;
#[cfg(mc_asan)]
pub const CW: usize = 0;

#[repr(C)]
pub struct Canary<T> {
    pre: [u64; CW],
    pub c: T,
    post: [u64; CW],
}
impl<T> Canary<T> {
    pub fn boxed(c: T) -> Box<Canary<T>> {
        Box::new(Canary {
            pre: [CANARY; CW],
            c,
            post: [CANARY; CW],
        })
    }
    #[inline]
    pub fn intact(&self) -> bool {
        if CW == 0 {
            return true;
        }
        let a = unsafe { std::ptr::read_volatile(&self.pre) };
        let b = unsafe { std::ptr::read_volatile(&self.post) };
        a.iter().all(|x| *x == CANARY) && b.iter().all(|x| *x == CANARY)
    }
    pub fn range(&self) -> (usize, usize) {
        let a = &self.c as *const T as usize;
        (a, a + std::mem::size_of::<T>())
    }
}

// ------------------------------------------------------------------------------------------
// Crash breadcrumb: the engine stores what it is about to do; a fatal-signal handler prints
// it (async-signal-safe: only write(2) on a pre-formatted static buffer).
// ------------------------------------------------------------------------------------------
const CRUMB_LEN: usize = 4096;
static mut CRUMB: [u8; CRUMB_LEN] = [0; CRUMB_LEN];
static mut CRUMB_USED: usize = 0;
static mut CRUMB_FD: i32 = 2;
static CRUMB_LOCK: std::sync::Mutex<()> = std::sync::Mutex::new(());

extern "C" {
    fn signal(signum: i32, handler: usize) -> usize;
    fn write(fd: i32, buf: *const u8, n: usize) -> isize;
    fn _exit(code: i32) -> !;
    fn open(path: *const u8, flags: i32, mode: u32) -> i32;
}

#[cfg(mc_asan)]
extern "C" {
    fn __sanitizer_set_death_callback(cb: extern "C" fn());
}
#[cfg(mc_asan)]
extern "C" fn on_asan_death() {
    unsafe {
        let head = b"\nCRASH asan ";
        write(CRUMB_FD, head.as_ptr(), head.len());
        let p = std::ptr::addr_of!(CRUMB) as *const u8;
        write(CRUMB_FD, p, CRUMB_USED);
        write(CRUMB_FD, b"\n".as_ptr(), 1);
    }
}

extern "C" fn on_fatal(sig: i32) {
    unsafe {
        let head = b"\nCRASH signal=";
        write(CRUMB_FD, head.as_ptr(), head.len());
        let d = [b'0' + (sig / 10) as u8, b'0' + (sig % 10) as u8, b' '];
        write(CRUMB_FD, d.as_ptr(), 3);
        let p = std::ptr::addr_of!(CRUMB) as *const u8;
        write(CRUMB_FD, p, CRUMB_USED);
        write(CRUMB_FD, b"\n".as_ptr(), 1);
        _exit(70);
    }
}

static CRUMB_PATH: std::sync::Mutex<Option<String>> = std::sync::Mutex::new(None);

/// Install handlers; breadcrumbs go to `path` (created/truncated) or stderr.
pub fn install_crash_handler(path: Option<&str>) {
    if cfg!(miri) {
        // no signals under the interpreter: `crumb` rewrites the file before every transition
        *CRUMB_PATH.lock().unwrap() = path.map(|s| s.to_string());
        return;
    }
    unsafe {
        if let Some(p) = path {
            let mut c = p.as_bytes().to_vec();
            c.push(0);
            // O_WRONLY|O_CREAT|O_TRUNC = 1|64|512
            let fd = open(c.as_ptr(), 1 | 64 | 512, 0o644);
            if fd >= 0 {
                CRUMB_FD = fd;
            }
        }
        // under AddressSanitizer the sanitizer's own handlers report (and the death callback
        // below prints the breadcrumb); ours would hide its report
        #[cfg(mc_asan)]
        __sanitizer_set_death_callback(on_asan_death);
        if !cfg!(mc_asan) {
            for s in [11, 7, 6, 4, 8] {
                signal(s, on_fatal as *const () as usize);
            }
        }
    }
}

/// Record what is about to run (cheap; overwritten for each transition). Only one thread's
/// crumb is kept: engines that want crash attribution set crumbs from each worker; the last
/// writer wins, which is still one of the transitions in flight.
pub fn crumb(s: &str) {
    if cfg!(miri) {
        if let Ok(g) = CRUMB_PATH.lock() {
            if let Some(p) = g.as_ref() {
                let _ = std::fs::write(p, s);
            }
        }
        return;
    }
    if let Ok(_g) = CRUMB_LOCK.try_lock() {
        unsafe {
            let n = s.len().min(CRUMB_LEN);
            std::ptr::copy_nonoverlapping(s.as_ptr(), std::ptr::addr_of_mut!(CRUMB) as *mut u8, n);
            CRUMB_USED = n;
        }
    }
}

// ------------------------------------------------------------------------------------------
// Panic plumbing
// ------------------------------------------------------------------------------------------
pub fn silence_panics() {
    std::panic::set_hook(Box::new(|_| {}));
}

#[derive(Clone, Debug, PartialEq, Eq)]
pub enum PanicKind {
    Injected(crate::payload::Cb, u32),
    Container(String),
}

pub fn classify_panic(e: Box<dyn std::any::Any + Send>) -> PanicKind {
    if let Some(i) = e.downcast_ref::<crate::payload::Injected>() {
        PanicKind::Injected(i.0, i.1)
    } else if let Some(s) = e.downcast_ref::<&'static str>() {
        PanicKind::Container((*s).to_string())
    } else if let Some(s) = e.downcast_ref::<String>() {
        PanicKind::Container(s.clone())
    } else {
        PanicKind::Container("<non-string panic payload>".to_string())
    }
}

// ------------------------------------------------------------------------------------------
// Engine report
// ------------------------------------------------------------------------------------------
pub struct EngineReport {
    pub engine: String,
    pub build: String,
    pub started: Instant,
    pub configs: Vec<J>,
    pub states: u64,
    pub transitions: u64,
    pub cx: Ctx,
    pub exhaustive: bool,
    pub caps_hit: Vec<String>,
    pub extra: BTreeMap<String, J>,
}

impl EngineReport {
    pub fn new(engine: &str, enabled: PMask) -> Self {
        EngineReport {
            engine: engine.to_string(),
            build: build_name().to_string(),
            started: Instant::now(),
            configs: Vec::new(),
            states: 0,
            transitions: 0,
            cx: Ctx::new(enabled),
            exhaustive: true,
            caps_hit: Vec::new(),
            extra: BTreeMap::new(),
        }
    }
    pub fn to_json(&self) -> J {
        let mut checks = J::obj();
        let mut viol = J::obj();
        let mut best = Vec::new();
        for i in 1..NPROPS {
            if self.cx.checks[i] > 0 || self.cx.viol_total[i] > 0 {
                checks.put(&pname(i), self.cx.checks[i]);
                viol.put(&pname(i), self.cx.viol_total[i]);
            }
            if let Some(v) = &self.cx.best[i] {
                best.push(v.to_json().set("reported_for", pname(i)));
            }
        }
        let mut classes = J::obj();
        for (k, v) in &self.cx.classes {
            classes.put(k, *v);
        }
        let mut j = J::obj()
            .set("engine", self.engine.as_str())
            .set("build", self.build.as_str())
            .set("configs", J::Arr(self.configs.clone()))
            .set("states", self.states)
            .set("transitions", self.transitions)
            .set("evaluations", self.cx.evaluations)
            .set("distinct_nontrivial", self.cx.nontrivial)
            .set("checks", checks)
            .set("violations", viol)
            .set("best_violations", J::Arr(best))
            .set("classes", classes)
            .set("samples", J::Arr(self.cx.samples.clone()))
            .set("exhaustive", self.exhaustive && self.caps_hit.is_empty())
            .set("caps_hit", self.caps_hit.clone())
            .set("machinery_errors", self.cx.machinery_errors.clone())
            .set("wall_s", self.started.elapsed().as_secs_f64());
        let mut vbo = J::obj();
        for (k, v) in &self.cx.viol_by_op {
            vbo.put(k, *v);
        }
        j.put("violations_by_op", vbo);
        let per_site: Vec<J> = self
            .cx
            .first_by_op
            .iter()
            .map(|(k, v)| v.to_json().set("reported_for", k.split(':').next().unwrap_or("")).set("site", k.as_str()))
            .collect();
        j.put("violations_per_site", J::Arr(per_site));
        for (k, v) in &self.extra {
            j.put(k, v.clone());
        }
        j
    }
    /// Write the report and pick the process exit code: 0 clean, 1 violations, 2 machinery.
    pub fn finish(&self, out: Option<&str>) -> i32 {
        let j = self.to_json();
        let text = j.dump();
        match out {
            Some(p) => {
                if let Err(e) = std::fs::write(p, &text) {
                    eprintln!("cannot write report {p}: {e}");
                    return 2;
                }
            }
            None => println!("{text}"),
        }
        if !self.cx.machinery_errors.is_empty() {
            for m in &self.cx.machinery_errors {
                eprintln!("MACHINERY: {m}");
            }
            return 2;
        }
        if self.cx.total_violations() > 0 {
            1
        } else {
            0
        }
    }
}

pub fn build_name() -> &'static str {
    if cfg!(miri) {
        "miri"
    } else if cfg!(mc_asan) {
        "asan"
    } else if cfg!(debug_assertions) {
        "dev"
    } else {
        "release"
    }
}

// ------------------------------------------------------------------------------------------
// Tiny CLI helper: --key value pairs
// ------------------------------------------------------------------------------------------
pub struct Args(pub Vec<String>);
impl Args {
    pub fn from_env() -> Self {
        let a = Args(std::env::args().skip(1).collect());
        // `--stale`: build every state with stale copies of destroyed elements in its dead slots
        crate::mapsys::set_stale(a.flag("stale"));
        crate::mapsys::set_ctor(a.get("ctor"));
        crate::mapsys::set_prehist(a.get("prehist"));
        a
    }
    pub fn get(&self, key: &str) -> Option<&str> {
        let k = format!("--{key}");
        self.0
            .iter()
            .position(|a| *a == k)
            .and_then(|i| self.0.get(i + 1))
            .map(|s| s.as_str())
    }
    pub fn flag(&self, key: &str) -> bool {
        let k = format!("--{key}");
        self.0.iter().any(|a| *a == k)
    }
    pub fn usize(&self, key: &str, default: usize) -> usize {
        self.get(key).and_then(|s| s.parse().ok()).unwrap_or(default)
    }
    pub fn list_usize(&self, key: &str, default: &[usize]) -> Vec<usize> {
        match self.get(key) {
            Some(s) => s.split(',').filter_map(|x| x.parse().ok()).collect(),
            None => default.to_vec(),
        }
    }
    pub fn props(&self) -> PMask {
        match self.get("props") {
            None => !0,
            Some(s) => {
                let mut m = 0;
                for t in s.split(',') {
                    if let Ok(n) = t.trim_start_matches('C').parse::<u32>() {
                        m |= 1 << n;
                    }
                }
                m
            }
        }
    }
    pub fn threads(&self) -> usize {
        self.usize(
            "threads",
            std::thread::available_parallelism().map(|n| n.get()).unwrap_or(4),
        )
    }
}
