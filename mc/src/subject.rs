//! Allocation accounting for C06: a counting global allocator (installed only by the binaries
//! that want it) counts allocator calls made on this thread while a *subject call* (a call
//! into micromap) is in progress. Harness code that runs inside a subject call (closures,
//! payload methods) brackets itself with `pause`.

use std::alloc::{GlobalAlloc, Layout, System};
use std::cell::Cell;

thread_local! {
    static DEPTH: Cell<i32> = const { Cell::new(0) };
    static COUNT: Cell<u32> = const { Cell::new(0) };
}
static INSTALLED: std::sync::atomic::AtomicBool = std::sync::atomic::AtomicBool::new(false);

pub struct Counting;

#[inline]
fn note() {
    let _ = DEPTH.try_with(|d| {
        if d.get() > 0 {
            let _ = COUNT.try_with(|c| c.set(c.get() + 1));
        }
    });
}

unsafe impl GlobalAlloc for Counting {
    unsafe fn alloc(&self, l: Layout) -> *mut u8 {
        note();
        System.alloc(l)
    }
    unsafe fn dealloc(&self, p: *mut u8, l: Layout) {
        note();
        System.dealloc(p, l)
    }
    unsafe fn realloc(&self, p: *mut u8, l: Layout, n: usize) -> *mut u8 {
        note();
        System.realloc(p, l, n)
    }
    unsafe fn alloc_zeroed(&self, l: Layout) -> *mut u8 {
        note();
        System.alloc_zeroed(l)
    }
}

/// Called once by a binary that has `#[global_allocator] static A: Counting = Counting;`
pub fn mark_installed() {
    INSTALLED.store(true, std::sync::atomic::Ordering::Relaxed);
    // self-test: an allocation inside a subject bracket must be counted
    reset();
    enter();
    let b = std::hint::black_box(Box::new(7u64));
    leave();
    drop(b);
    assert!(take() >= 1, "counting allocator is not active");
}
pub fn installed() -> bool {
    INSTALLED.load(std::sync::atomic::Ordering::Relaxed)
}
#[inline]
pub fn enter() {
    DEPTH.with(|d| d.set(d.get() + 1));
}
#[inline]
pub fn leave() {
    DEPTH.with(|d| d.set(d.get() - 1));
}
/// Forget any bracket left open by an unwinding and zero the counter.
pub fn reset() {
    DEPTH.with(|d| d.set(0));
    COUNT.with(|c| c.set(0));
}
/// Allocator calls seen inside subject brackets since the last reset/take.
pub fn take() -> u32 {
    DEPTH.with(|d| d.set(0));
    COUNT.with(|c| c.replace(0))
}
/// Run harness code that executes inside a subject call without counting its allocations.
#[inline]
pub fn pause<R>(f: impl FnOnce() -> R) -> R {
    let saved = DEPTH.with(|d| d.replace(0));
    let r = f();
    DEPTH.with(|d| d.set(saved));
    r
}

/// Bracket one call into micromap.
#[macro_export]
macro_rules! subj {
    ($e:expr) => {{
        $crate::subject::enter();
        let r = $e;
        $crate::subject::leave();
        r
    }};
}
