//! The Set system under exploration (mirrors mapsys for `micromap::Set`).

use crate::bfs::{RunOut, Snap, Sys};
use crate::ctx::*;
use crate::mapsys::{check_live, flush_ledger, Form, Ret, F};
use crate::payload::{self as pl, KeyT, KD, NOID};
use crate::survivor::Src;
use micromap::Set;
use std::borrow::Borrow;
use std::collections::BTreeMap;
use std::fmt;
use std::marker::PhantomData;
use std::panic::{catch_unwind, AssertUnwindSafe};

#[derive(Clone, Copy, PartialEq, Eq, Debug)]
pub enum SetOp {
    Insert { k: u8, t: u8 },
    Replace { k: u8, t: u8 },
    Contains { k: u8, f: Form },
    Get { k: u8, f: Form },
    Remove { k: u8, f: Form },
    Take { k: u8, f: Form },
    Retain { keep: u8 },
    /// `retain` with a stateful predicate: its i-th answer is bit i of the tape, whatever element it is shown
    RetainTape { tape: u8 },
    Clear,
    Drain { take: u8, forget: bool },
    /// extend with `len` items; item i is (k, tag) = (seq[i] & 7, seq[i] >> 3)
    Extend { len: u8, seq: [u8; 3] },
}

impl fmt::Display for SetOp {
    fn fmt(&self, f: &mut fmt::Formatter<'_>) -> fmt::Result {
        write!(f, "{self:?}")
    }
}

impl SetOp {
    pub fn base_props(&self) -> PMask {
        match self {
            SetOp::Extend { .. } => C07 | C16,
            SetOp::Drain { .. } => C07 | C10,
            _ => C07,
        }
    }
    pub fn is_insertion(&self) -> bool {
        matches!(self, SetOp::Insert { .. } | SetOp::Replace { .. } | SetOp::Extend { .. })
    }
    /// see `MapOp::relevant`
    pub fn relevant(&self) -> PMask {
        self.base_props() | C02 | C03 | C05 | C06 | C12
    }
}

#[derive(Clone, Copy, PartialEq, Eq, Debug)]
pub enum SAlpha {
    Full,
    Gen,
}

pub fn alphabet<K: KeyT>(n: usize, nk: u8, which: SAlpha, ext_len: u8) -> Vec<SetOp> {
    let mut a = Vec::new();
    let tags = K::TAGS;
    let forms: &[Form] = if K::DISTINCT_Q { &[Form::Key, Form::Q] } else { &[Form::Key] };
    for k in 0..nk {
        for t in 0..tags {
            a.push(SetOp::Insert { k, t });
        }
    }
    for k in 0..nk {
        a.push(SetOp::Remove { k, f: Form::Key });
    }
    for k in 0..nk {
        for t in 0..tags {
            a.push(SetOp::Replace { k, t });
        }
    }
    if which == SAlpha::Gen {
        return a;
    }
    for k in 0..nk {
        for &f in forms {
            if f != Form::Key {
                a.push(SetOp::Remove { k, f });
            }
            a.push(SetOp::Contains { k, f });
            a.push(SetOp::Get { k, f });
            a.push(SetOp::Take { k, f });
        }
    }
    for keep in 0..(1u16 << nk) {
        a.push(SetOp::Retain { keep: keep as u8 });
    }
    // every answer tape of n+1 bits (bit n answers every call beyond the n-th, if there is one)
    for tape in 0..(1u16 << (n.min(6) + 1)) {
        let tape = if tape >> n.min(6) & 1 != 0 { tape as u8 | (0xffu8 << n.min(6)) } else { tape as u8 };
        a.push(SetOp::RetainTape { tape });
    }
    a.push(SetOp::Clear);
    for take in 0..=(n as u8 + 1) {
        a.push(SetOp::Drain { take, forget: false });
        a.push(SetOp::Drain { take, forget: true });
    }
    let items: Vec<u8> = (0..nk).flat_map(|k| (0..tags).map(move |t| k | (t << 3))).collect();
    a.push(SetOp::Extend { len: 0, seq: [0; 3] });
    if ext_len >= 1 {
        for &i0 in &items {
            a.push(SetOp::Extend { len: 1, seq: [i0, 0, 0] });
        }
    }
    if ext_len >= 2 {
        for &i0 in &items {
            for &i1 in &items {
                a.push(SetOp::Extend { len: 2, seq: [i0, i1, 0] });
            }
        }
    }
    if ext_len >= 3 {
        for &i0 in &items {
            for &i1 in &items {
                for &i2 in &items {
                    a.push(SetOp::Extend { len: 3, seq: [i0, i1, i2] });
                }
            }
        }
    }
    a
}

#[derive(Clone, Debug, Default)]
pub struct RefSet {
    pub cap: usize,
    pub s: BTreeMap<u8, KD>,
}
impl RefSet {
    pub fn new(cap: usize) -> Self {
        RefSet { cap, s: BTreeMap::new() }
    }
    pub fn elems(&self) -> Vec<KD> {
        self.s.values().copied().collect()
    }
    pub fn stored_ids(&self) -> Vec<u32> {
        self.s.values().filter(|k| k.id != NOID).map(|k| k.id).collect()
    }
    pub fn full(&self) -> bool {
        self.s.len() >= self.cap
    }
}

pub enum SRet {
    Exact(Ret),
    SomeElems { count: usize, from: Vec<KD> },
}

pub struct SModelOut {
    pub ret: SRet,
    pub overflow: bool,
    pub leak_ok: Vec<u32>,
    pub identity_case: bool,
    /// expected number of `next()` calls on the source (extend)
    pub pulls: Option<u32>,
    /// retain did not show its predicate every stored element exactly once
    pub visit_error: Option<String>,
}
impl SModelOut {
    fn exact(r: Ret) -> Self {
        SModelOut {
            ret: SRet::Exact(r),
            overflow: false,
            leak_ok: Vec::new(),
            identity_case: false,
            pulls: None,
            visit_error: None,
        }
    }
}

pub fn applicable(model: &RefSet, op: &SetOp) -> bool {
    match *op {
        SetOp::Drain { take, .. } => (take as usize) <= model.s.len() + 1,
        _ => true,
    }
}

pub struct SArgs<K> {
    pub k: Option<K>,
    pub probe: Option<K>,
    pub items: Vec<K>,
    pub kd: Option<KD>,
    pub item_ds: Vec<KD>,
}

pub fn prepare<K: KeyT>(op: &SetOp) -> SArgs<K> {
    let ptag = K::TAGS - 1;
    let mut a = SArgs {
        k: None,
        probe: None,
        items: Vec::new(),
        kd: None,
        item_ds: Vec::new(),
    };
    match *op {
        SetOp::Insert { k, t } | SetOp::Replace { k, t } => a.k = Some(K::mk(k, t)),
        SetOp::Contains { k, f } | SetOp::Get { k, f } | SetOp::Remove { k, f } | SetOp::Take { k, f } => {
            if f == Form::Key {
                a.probe = Some(K::mk(k, ptag));
            }
        }
        SetOp::Extend { len, seq } => {
            for i in 0..len as usize {
                a.items.push(K::mk(seq[i] & 7, seq[i] >> 3));
            }
        }
        _ => {}
    }
    a.kd = a.k.as_ref().map(|k| k.kd());
    a.item_ds = a.items.iter().map(|k| k.kd()).collect();
    a
}

pub fn exec_model(model: &mut RefSet, op: &SetOp, a: &SArgs<impl Sized>, visits: &[KD]) -> SModelOut {
    match *op {
        SetOp::Insert { k, .. } => {
            if model.s.contains_key(&k) {
                let mut o = SModelOut::exact(vec![F::B(false)]);
                o.identity_case = true;
                o
            } else if model.full() {
                let mut o = SModelOut::exact(vec![F::Panic]);
                o.overflow = true;
                o
            } else {
                model.s.insert(k, a.kd.unwrap());
                SModelOut::exact(vec![F::B(true)])
            }
        }
        SetOp::Replace { k, .. } => {
            if let Some(e) = model.s.get_mut(&k) {
                let old = *e;
                *e = a.kd.unwrap();
                let mut o = SModelOut::exact(vec![F::K(old)]);
                o.identity_case = true;
                o
            } else if model.full() {
                let mut o = SModelOut::exact(vec![F::Panic]);
                o.overflow = true;
                o
            } else {
                model.s.insert(k, a.kd.unwrap());
                SModelOut::exact(vec![F::None])
            }
        }
        SetOp::Contains { k, .. } => SModelOut::exact(vec![F::B(model.s.contains_key(&k))]),
        SetOp::Get { k, .. } => match model.s.get(&k) {
            Some(kd) => SModelOut::exact(vec![F::K(*kd)]),
            None => SModelOut::exact(vec![F::None]),
        },
        SetOp::Remove { k, .. } => SModelOut::exact(vec![F::B(model.s.remove(&k).is_some())]),
        SetOp::Take { k, .. } => match model.s.remove(&k) {
            Some(kd) => SModelOut::exact(vec![F::K(kd)]),
            None => SModelOut::exact(vec![F::None]),
        },
        SetOp::Retain { keep } => {
            model.s.retain(|k, _| keep & (1 << k) != 0);
            SModelOut::exact(vec![])
        }
        SetOp::RetainTape { tape } => {
            let answer = |i: usize| tape >> i.min(7) & 1 != 0;
            let mut want: Vec<u8> = model.s.keys().copied().collect();
            want.sort_unstable();
            let mut got: Vec<u8> = visits.iter().map(|k| k.k).collect();
            got.sort_unstable();
            let mut o = SModelOut::exact(vec![]);
            if got != want {
                o.visit_error = Some(format!(
                    "retain showed its predicate the elements {got:?} (sorted) but the set held {want:?}: every element must be shown exactly once"
                ));
            }
            // the one answer given for an element decides (first visit, should there be several)
            model.s.retain(|k, _| visits.iter().position(|v| v.k == *k).map(answer).unwrap_or(true));
            o
        }
        SetOp::Clear => {
            model.s.clear();
            SModelOut::exact(vec![])
        }
        SetOp::Drain { take, forget } => {
            let from = model.elems();
            let count = (take as usize).min(from.len());
            let leak_ok = if forget { model.stored_ids() } else { Vec::new() };
            model.s.clear();
            let mut o = SModelOut::exact(vec![]);
            o.ret = SRet::SomeElems { count, from };
            o.leak_ok = leak_ok;
            o
        }
        SetOp::Extend { .. } => {
            // the fold of single inserts, front to back
            let mut pulls = 0u32;
            let mut dup = false;
            for kd in &a.item_ds {
                pulls += 1;
                if model.s.contains_key(&kd.k) {
                    dup = true;
                } else if model.full() {
                    let mut o = SModelOut::exact(vec![F::Panic]);
                    o.overflow = true;
                    o.pulls = Some(pulls);
                    o.identity_case = dup;
                    return o;
                } else {
                    model.s.insert(kd.k, *kd);
                }
            }
            let mut o = SModelOut::exact(vec![]);
            o.pulls = Some(pulls + 1);
            o.identity_case = dup;
            o
        }
    }
}

pub struct SSide<K> {
    pub held: Vec<K>,
    pub items: Vec<KD>,
    pub refs: Vec<(usize, usize)>,
    pub pulls: Option<(u32, bool)>,
}
impl<K> Default for SSide<K> {
    fn default() -> Self {
        SSide {
            held: Vec::new(),
            items: Vec::new(),
            refs: Vec::new(),
            pulls: None,
        }
    }
}

fn exec_lookup<K: KeyT + Borrow<QQ>, QQ: ?Sized + Eq, const N: usize>(s: &mut Set<K, N>, op: &SetOp, q: &QQ, side: &mut SSide<K>) -> Ret {
    match *op {
        SetOp::Contains { .. } => {
            let r = crate::subj!(s.contains::<QQ>(q));
            vec![F::B(r)]
        }
        SetOp::Get { .. } => match crate::subj!(s.get::<QQ>(q)) {
            Some(k) => {
                side.refs.push((k as *const K as usize, std::mem::size_of::<K>()));
                vec![F::K(k.kd())]
            }
            None => vec![F::None],
        },
        SetOp::Remove { .. } => {
            let r = crate::subj!(s.remove::<QQ>(q));
            vec![F::B(r)]
        }
        SetOp::Take { .. } => match crate::subj!(s.take::<QQ>(q)) {
            Some(k) => {
                let d = k.kd();
                side.held.push(k);
                vec![F::K(d)]
            }
            None => vec![F::None],
        },
        _ => unreachable!(),
    }
}

pub fn exec_real<K: KeyT, const N: usize>(s: &mut Set<K, N>, op: &SetOp, a: &mut SArgs<K>, side: &mut SSide<K>) -> Ret {
    match *op {
        SetOp::Insert { .. } => {
            let k_ = a.k.take().unwrap();
            let r = crate::subj!(s.insert(k_));
            vec![F::B(r)]
        }
        SetOp::Replace { .. } => match {
            let k_ = a.k.take().unwrap();
            crate::subj!(s.replace(k_))
        } {
            Some(k) => {
                let d = k.kd();
                side.held.push(k);
                vec![F::K(d)]
            }
            None => vec![F::None],
        },
        SetOp::Contains { k, f } | SetOp::Get { k, f } | SetOp::Remove { k, f } | SetOp::Take { k, f } => match f {
            Form::Key => {
                let probe = a.probe.take().expect("probe");
                exec_lookup::<K, K, N>(s, op, &probe, side)
            }
            Form::Q => K::with_q(k, |q| exec_lookup::<K, K::Q, N>(s, op, q, side)),
        },
        SetOp::Retain { keep } => {
            let mut items = Vec::new();
            crate::subj!(s.retain(|k| {
                crate::subject::pause(|| {
                    pl::tick(pl::Cb::Pred);
                    let kd = k.kd();
                    items.push(kd);
                    keep & (1 << kd.k) != 0
                })
            }));
            side.items = items;
            vec![]
        }
        SetOp::RetainTape { tape } => {
            let mut items = Vec::new();
            crate::subj!(s.retain(|k| {
                crate::subject::pause(|| {
                    pl::tick(pl::Cb::Pred);
                    let answer = tape >> items.len().min(7) & 1 != 0;
                    items.push(k.kd());
                    answer
                })
            }));
            side.items = items;
            vec![]
        }
        SetOp::Clear => {
            crate::subj!(s.clear());
            vec![]
        }
        SetOp::Drain { take, forget } => {
            let mut d = crate::subj!(s.drain());
            for _ in 0..take {
                match crate::subj!(d.next()) {
                    Some(k) => {
                        side.items.push(k.kd());
                        side.held.push(k);
                    }
                    None => break,
                }
            }
            if forget {
                std::mem::forget(d);
            } else {
                crate::subj!(drop(d));
            }
            vec![]
        }
        SetOp::Extend { .. } => {
            let (src, calls) = Src::new(std::mem::take(&mut a.items));
            let r = catch_unwind(AssertUnwindSafe(|| s.extend(src)));
            side.pulls = Some(calls.get());
            match r {
                Ok(()) => vec![],
                Err(e) => std::panic::resume_unwind(e),
            }
        }
    }
}

pub fn elems_of<K: KeyT, const N: usize>(s: &Set<K, N>) -> Vec<KD> {
    s.iter().map(|k| k.kd()).collect()
}

pub fn snapshot<K: KeyT, const N: usize>(s: &Set<K, N>) -> Snap {
    let e: Vec<(u8, u8, u8)> = s
        .iter()
        .take(7)
        .map(|k| {
            let kd = k.kd();
            (kd.k & 7, kd.tag & 1, 0)
        })
        .collect();
    Snap::from_entries(&e)
}

pub fn invariants<K: KeyT, const N: usize>(s: &Set<K, N>, cx: &mut Ctx, extra: PMask) {
    let pm = C05 | extra;
    let len = s.len();
    let items: Vec<&K> = s.iter().take(N + 2).collect();
    for (i, k) in items.iter().enumerate() {
        for k2 in &items[..i] {
            if k.kd().k == k2.kd().k {
                cx.violate(pm, format!("set iteration yields two equal elements {} and {}", k.kd(), k2.kd()));
            }
        }
    }
    cx.check(pm, items.len() == len, || format!("iter() yields {} elements but len() is {len}", items.len()));
    cx.check(pm, s.is_empty() == (len == 0), || format!("is_empty() is {} but len() is {len}", s.is_empty()));
    cx.check(pm | C03, s.capacity() == N, || format!("capacity() is {} for N = {N}", s.capacity()));
    cx.check(pm | C03, len <= N, || format!("len() {len} exceeds capacity {N}"));
    for k in &items {
        if let Some(found) = k.alias_probe(|q| s.contains(q) || s.get(q).is_some()) {
            cx.check(C07, !found, || format!("a lookup through a borrowed value that shares the address of the stored element {} but is not equal to it finds an element", k.kd()));
        }
        cx.check(pm, s.contains::<K>(k), || format!("contains({}) is false for a yielded element", k.kd()));
        let g = s.get::<K>(k).map(|x| x as *const K);
        cx.check(pm, g == Some(*k as *const K), || format!("get({}) does not return the yielded element", k.kd()));
        if K::DISTINCT_Q {
            let (bg, bc) = K::with_q(k.kd().k, |q| (s.get(q).map(|x| x as *const K), s.contains(q)));
            cx.check(pm, bg == Some(*k as *const K) && bc, || format!("element {} yielded by iter() is not found through its borrowed form", k.kd()));
        }
    }
}

pub fn observe<K: KeyT, const N: usize>(s: &Set<K, N>, model: &RefSet, probes: &[K], cx: &mut Ctx, base: PMask, range: (usize, usize)) -> bool {
    let sem = base;
    let idp = C12 | (base & !C07);
    let mut ok = true;
    let want = model.elems();
    ok &= cx.check(sem, s.len() == want.len(), || format!("len() is {} but the model holds {}", s.len(), want.len()));
    ok &= cx.check(sem, s.is_empty() == want.is_empty(), || "is_empty() disagrees with the model".to_string());
    let mut got = elems_of(s);
    got.sort();
    let mut w = want.clone();
    w.sort();
    let codes = |x: &[KD]| {
        let mut c: Vec<u8> = x.iter().map(|k| k.k).collect();
        c.sort();
        c
    };
    if codes(&got) != codes(&w) {
        ok = false;
        cx.violate(sem, format!("iteration yields {got:?} but the model holds {w:?}"));
    } else {
        cx.check(sem, true, String::new);
        if got != w {
            ok = false;
            cx.violate(idp | C02, format!("stored element objects are {got:?} but should be {w:?}"));
        } else {
            cx.check(idp | C02, true, String::new);
        }
    }
    for (i, probe) in probes.iter().enumerate() {
        let k = i as u8;
        let want = model.s.get(&k).copied();
        let c1 = s.contains::<K>(probe);
        ok &= cx.check(sem, c1 == want.is_some(), || format!("contains(k{k}) is {c1} but the model says {}", want.is_some()));
        let g1 = s.get::<K>(probe).map(|x| x.kd());
        ok &= cx.check(sem, g1.map(|x| x.k) == want.map(|x| x.k), || format!("get(k{k}) is {g1:?} but the model says {want:?}"));
        if g1.is_some() && want.is_some() {
            ok &= cx.check(idp, g1 == want, || format!("get(k{k}) exposes {} but the stored element should be {}", g1.unwrap(), want.unwrap()));
        }
        if let Some(r) = s.get::<K>(probe) {
            let a = r as *const K as usize;
            cx.check(C06, a >= range.0 && a + std::mem::size_of::<K>() <= range.1, || {
                format!("get(k{k}) returned a reference outside the container value")
            });
        }
        if K::DISTINCT_Q {
            let c2 = K::with_q(k, |q| s.contains(q));
            ok &= cx.check(sem, c2 == c1, || format!("contains(k{k}) through the borrowed form is {c2}, through the element {c1}"));
            let g2 = K::with_q(k, |q| s.get(q).map(|x| x.kd()));
            ok &= cx.check(sem, g2 == g1, || format!("get(k{k}) through the borrowed form is {g2:?}, through the element {g1:?}"));
        }
    }
    ok
}

pub struct SetSys<K, const N: usize> {
    pub nk: u8,
    pub ops: Vec<SetOp>,
    pub alpha: SAlpha,
    _p: PhantomData<fn() -> K>,
}

pub struct SBuilt<K, const N: usize> {
    pub bx: Box<Canary<Set<K, N>>>,
    pub model: RefSet,
    pub probes: Vec<K>,
    pub leaked: Vec<u32>,
}

pub struct SStepOut {
    pub consistent: bool,
    pub panicked: bool,
}

impl<K: KeyT, const N: usize> SetSys<K, N> {
    pub fn new(nk: u8, alpha: SAlpha, ext_len: u8) -> Self {
        let nk = nk.min(K::MAXK);
        SetSys {
            nk,
            ops: alphabet::<K>(N, nk, alpha, ext_len),
            alpha,
            _p: PhantomData,
        }
    }
    pub fn probes(&self) -> Vec<K> {
        (0..self.nk).map(|k| K::mk(k, 0)).collect()
    }

    pub fn step(&self, bx: &mut Canary<Set<K, N>>, model: &mut RefSet, probes: &[K], op: &SetOp, cx: &mut Ctx, leaked: &mut Vec<u32>) -> SStepOut {
        let mut a = prepare::<K>(op);
        let mut side: SSide<K> = SSide::default();
        let range = bx.range();
        crate::subject::reset();
        let res = {
            let s = &mut bx.c;
            catch_unwind(AssertUnwindSafe(|| exec_real(s, op, &mut a, &mut side)))
        };
        let allocs = crate::subject::take();
        let (got, panicked) = match res {
            Ok(r) => (r, false),
            Err(e) => {
                if let PanicKind::Injected(..) = classify_panic(e) {
                    cx.machinery("injected panic outside a fuse run".into());
                }
                (vec![F::Panic], true)
            }
        };
        let mo = exec_model(model, op, &a, &side.items);
        drop(a);
        if cx.quiet {
            leaked.extend(mo.leak_ok.iter().copied());
            return SStepOut { consistent: true, panicked };
        }
        let base = op.base_props();
        let pm = base | if mo.overflow { C03 } else { 0 };
        let mut consistent = true;
        cx.class(&format!(
            "{}:{}",
            sopclass(op),
            if panicked {
                "panic"
            } else if mo.identity_case {
                "present"
            } else {
                "ok"
            }
        ));
        match &mo.ret {
            SRet::Exact(want) => {
                let strip = |r: &Ret| -> Ret {
                    r.iter()
                        .map(|f| match f {
                            F::K(k) => F::K(KD { id: NOID, k: k.k, tag: 0 }),
                            x => *x,
                        })
                        .collect()
                };
                if strip(&got) != strip(want) {
                    consistent = false;
                    cx.violate(pm, format!("returned {got:?} but the model says {want:?}"));
                } else {
                    cx.check(pm, true, String::new);
                    cx.check(C12 | C02 | (pm & !C07), got == *want, || {
                        format!("returned element object {got:?} but should be {want:?}")
                    });
                }
            }
            SRet::SomeElems { count, from } => {
                let mut codes: Vec<u8> = side.items.iter().map(|k| k.k).collect();
                codes.sort_unstable();
                codes.dedup();
                let sem = !panicked && side.items.len() == *count && codes.len() == side.items.len() && side.items.iter().all(|x| from.iter().any(|f| f.k == x.k));
                consistent &= sem;
                cx.check(pm, sem, || format!("yielded {:?} but should yield {count} distinct elements of {from:?}", side.items));
                if sem {
                    let ident = side.items.iter().all(|x| from.contains(x));
                    consistent &= ident;
                    cx.check(C12 | C02 | (pm & !C07), ident, || format!("yielded the objects {:?} but the stored objects are {from:?}", side.items));
                }
            }
        }
        if let SetOp::RetainTape { .. } = op {
            let ok = mo.visit_error.is_none();
            consistent &= ok;
            cx.check(pm, ok, || mo.visit_error.clone().unwrap_or_default());
        }
        if let (Some(want), Some((got_pulls, after_none))) = (mo.pulls, side.pulls) {
            cx.check(C16, got_pulls == want, || format!("the source iterator was pulled {got_pulls} times, expected {want}"));
            cx.check(C16, !after_none, || "the source iterator was pulled again after it had returned None".to_string());
        }
        for (addr, sz) in &side.refs {
            cx.check(C06, *addr >= range.0 && addr + sz <= range.1, || "a reference handed out lies outside the container value".to_string());
        }
        cx.check(C03 | C02, bx.intact(), || "a canary next to the container was overwritten".to_string());
        if crate::subject::installed() && K::PLAIN && !panicked && !matches!(op, SetOp::Extend { .. }) {
            cx.check(C06, allocs == 0, || format!("the call made {allocs} allocator call(s)"));
        }
        if K::LEDGER {
            let own = C02 | (pm & !C07);
            consistent &= flush_ledger(cx, own, "during the call");
            let mut expect = model.stored_ids();
            expect.extend(probes.iter().map(|p| p.kd().id));
            let mut leak_ok = leaked.clone();
            leak_ok.extend(mo.leak_ok.iter().copied());
            let mut with_held = expect.clone();
            with_held.extend(side.held.iter().map(|k| k.kd().id));
            consistent &= check_live(cx, own, with_held, &leak_ok, "after the call");
            drop(side);
            consistent &= check_live(cx, own, expect, &leak_ok, "after dropping what was returned");
            consistent &= flush_ledger(cx, own, "dropping what was returned");
        } else {
            drop(side);
        }
        leaked.extend(mo.leak_ok.iter().copied());
        consistent &= observe(&bx.c, model, probes, cx, pm, range);
        invariants(&bx.c, cx, if panicked { pm & C03 } else { 0 });
        if K::LEDGER {
            consistent &= flush_ledger(cx, C02 | (pm & !C07), "observing the container afterwards");
        }
        SStepOut { consistent, panicked }
    }

    pub fn exercise(&self, bx: &mut Canary<Set<K, N>>, model: &mut RefSet, probes: &[K], cx: &mut Ctx, leaked: &mut Vec<u32>, pm: PMask) {
        let keys: Vec<u8> = model.s.keys().copied().collect();
        let saved = cx.here.extra.clone();
        cx.here.extra = format!("{saved} [usability exercise after the panic]");
        for k in keys {
            for op in [SetOp::Remove { k, f: Form::Key }, SetOp::Insert { k, t: 0 }] {
                let mut sub = Ctx::new(!0);
                sub.here = cx.here.clone();
                let out = self.step(bx, model, probes, &op, &mut sub, leaked);
                if sub.total_violations() > 0 || !out.consistent {
                    let msg = sub.best.iter().flatten().next().map(|v| v.msg.clone()).unwrap_or_else(|| "inconsistent".into());
                    cx.violate(pm, format!("container unusable after the panic: {op}: {msg}"));
                } else {
                    cx.check(pm, true, String::new);
                }
            }
        }
        cx.here.extra = saved;
    }

    pub fn build(&self, path: &[u32], cx: &mut Ctx) -> SBuilt<K, N> {
        pl::reset();
        let mut bx = Canary::boxed(if crate::mapsys::CTOR.load(std::sync::atomic::Ordering::Relaxed) == 0 { Set::<K, N>::new() } else { Set::<K, N>::default() });
        // pre-history (see mapsys::prehistory): full, fully looked up, emptied again
        let alive_before = pl::live_ids();
        let mode = crate::mapsys::PREHIST.load(std::sync::atomic::Ordering::Relaxed);
        if mode != 0 {
            let s = &mut bx.c;
            let fill = (N as u8).min(self.nk);
            for k in 0..fill {
                s.insert(K::mk(k, 0));
            }
            // descending, then ascending: the final touch of every kind lands on the last slot
            for k in (0..fill).rev().chain(0..fill) {
                K::with_q(k, |q| {
                    let _ = s.contains(q);
                    let _ = s.get(q);
                });
                // the writing operations, as a re-insertion of the present element
                let _ = s.insert(K::mk(k, 0));
                let _ = s.replace(K::mk(k, 0));
            }
            match mode {
                1 => drop(s.drain()),
                2 => std::mem::forget(s.drain()),
                3 => s.clear(),
                4 => s.retain(|_| false),
                5 => {
                    for k in 0..fill {
                        K::with_q(k, |q| {
                            s.remove(q);
                        });
                    }
                }
                _ => {
                    for k in (0..fill).rev() {
                        K::with_q(k, |q| {
                            let _ = s.take(q);
                        });
                    }
                }
            }
        }
        let mut leaked: Vec<u32> = pl::live_ids().into_iter().filter(|id| !alive_before.contains(id)).collect();
        let mut model = RefSet::new(N);
        let probes = self.probes();
        let was = cx.quiet;
        cx.quiet = true;
        for i in path {
            let op = self.ops[*i as usize];
            self.step(&mut bx, &mut model, &probes, &op, cx, &mut leaked);
        }
        if crate::mapsys::stale() {
            let s = &mut bx.c;
            let free = N - s.len().min(N);
            let codes: Vec<u8> = (self.nk..K::MAXCODE).take(free).collect();
            for c in &codes {
                s.insert(K::mk(*c, 0));
            }
            for c in codes.iter().rev() {
                K::with_q(*c, |q| {
                    s.remove(q);
                });
            }
        }
        cx.quiet = was;
        SBuilt { bx, model, probes, leaked }
    }

    pub fn teardown(&self, b: SBuilt<K, N>, cx: &mut Ctx, pm: PMask) {
        let SBuilt { bx, probes, leaked, .. } = b;
        drop(bx);
        drop(probes);
        if K::LEDGER {
            flush_ledger(cx, pm, "dropping the container");
            check_live(cx, pm, Vec::new(), &leaked, "after dropping the container");
        }
    }
}

pub fn sopclass(op: &SetOp) -> String {
    let s = format!("{op:?}");
    format!("set.{}", s.split([' ', '{']).next().unwrap_or(""))
}

impl<K: KeyT, const N: usize> Sys for SetSys<K, N> {
    fn n_ops(&self) -> usize {
        self.ops.len()
    }
    fn op_name(&self, i: usize) -> String {
        self.ops[i].to_string()
    }
    fn config(&self) -> String {
        format!("Set<{},{}> keys={} tags={} alphabet={:?}", K::NAME, N, self.nk, K::TAGS, self.alpha)
    }
    fn run(&self, path: &[u32], op: Option<u32>, cx: &mut Ctx) -> RunOut {
        let mut b = self.build(path, cx);
        let before = snapshot(&b.bx.c);
        let mut after = None;
        let mut explore = false;
        if let Some(oi) = op {
            let o = self.ops[oi as usize];
            if applicable(&b.model, &o) {
                cx.here.op = o.to_string();
                cx.here.extra.clear();
                crumb(&cx.here.op);
                cx.evaluations += 1;
                let pre_len = b.model.s.len();
                let out = self.step(&mut b.bx, &mut b.model, &b.probes, &o, cx, &mut b.leaked);
                after = Some(snapshot(&b.bx.c));
                explore = out.consistent;
                if out.panicked && out.consistent {
                    let pm = if o.is_insertion() { C03 } else { o.base_props() };
                    self.exercise(&mut b.bx, &mut b.model, &b.probes, cx, &mut b.leaked, pm);
                }
                if pre_len > 0 || after != Some(before) {
                    cx.nontrivial += 1;
                }
                if pre_len == 0 {
                    cx.class("state:empty");
                }
                if pre_len == N {
                    cx.class("state:full");
                }
                cx.sample(|| {
                    crate::json::J::obj()
                        .set("history", path.iter().map(|i| self.ops[*i as usize].to_string()).collect::<Vec<_>>())
                        .set("op", o.to_string())
                        .set("state_before", before.render())
                        .set("state_after", after.unwrap().render())
                });
            }
        }
        self.teardown(b, cx, C02);
        RunOut { before, after, explore }
    }
}
