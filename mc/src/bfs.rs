//! Explicit-state breadth-first exploration of a real object, to the fixpoint of the
//! reachable snapshot set. A state is rebuilt by replaying its shortest history on a fresh
//! real object; every (state, op) edge is executed on the implementation and judged.

use crate::ctx::Ctx;
use std::collections::HashMap;
use std::sync::atomic::{AtomicUsize, Ordering};
use std::time::{Duration, Instant};

/// Canonical snapshot: up to 7 entries, one byte each (k | tag<<3 | v<<4), len in the low byte.
#[derive(Clone, Copy, PartialEq, Eq, Hash, PartialOrd, Ord, Debug)]
pub struct Snap(pub u64);

impl Snap {
    pub const EMPTY: Snap = Snap(0);
    pub fn from_entries(e: &[(u8, u8, u8)]) -> Snap {
        assert!(e.len() <= 7);
        let mut x = e.len() as u64;
        for (i, (k, t, v)) in e.iter().enumerate() {
            debug_assert!(*k < 8 && *t < 2 && *v < 8);
            let b = (*k as u64) | ((*t as u64) << 3) | ((*v as u64) << 4);
            x |= b << (8 * (i + 1));
        }
        Snap(x)
    }
    pub fn len(&self) -> usize {
        (self.0 & 0xFF) as usize
    }
    pub fn is_empty(&self) -> bool {
        self.len() == 0
    }
    pub fn entries(&self) -> Vec<(u8, u8, u8)> {
        (0..self.len())
            .map(|i| {
                let b = (self.0 >> (8 * (i + 1))) & 0xFF;
                ((b & 7) as u8, ((b >> 3) & 1) as u8, ((b >> 4) & 7) as u8)
            })
            .collect()
    }
    /// abstract state: the association with slot order forgotten
    pub fn abstracted(&self) -> Vec<(u8, u8, u8)> {
        let mut e = self.entries();
        e.sort();
        e
    }
    pub fn render(&self) -> String {
        let e = self.entries();
        let parts: Vec<String> = e.iter().map(|(k, t, v)| format!("k{k}t{t}=v{v}")).collect();
        format!("[{}]", parts.join(" "))
    }
}

pub struct RunOut {
    /// snapshot after replaying the path
    pub before: Snap,
    /// snapshot after the op (None: op not applicable in this state, or no op requested)
    pub after: Option<Snap>,
    /// the post-state is trustworthy enough to be explored further
    pub explore: bool,
}

pub trait Sys: Sync {
    fn n_ops(&self) -> usize;
    fn op_name(&self, i: usize) -> String;
    fn config(&self) -> String;
    fn run(&self, path: &[u32], op: Option<u32>, cx: &mut Ctx) -> RunOut;
}

#[derive(Clone, Copy, Debug)]
pub struct StateRec {
    pub snap: Snap,
    pub parent: u32,
    pub op: u32,
    pub depth: u16,
}

pub struct BfsOut {
    pub states: Vec<StateRec>,
    pub transitions: u64,
    pub max_depth: u16,
    pub capped: Option<String>,
}

impl BfsOut {
    pub fn path_of(&self, s: usize) -> Vec<u32> {
        path_of(&self.states, s)
    }
}

pub fn path_of(states: &[StateRec], mut s: usize) -> Vec<u32> {
    let mut p = Vec::new();
    while states[s].parent != u32::MAX {
        p.push(states[s].op);
        s = states[s].parent as usize;
    }
    p.reverse();
    p
}

pub struct Caps {
    pub max_states: usize,
    pub wall: Duration,
}
impl Default for Caps {
    fn default() -> Self {
        Caps {
            max_states: 8_000_000,
            wall: Duration::from_secs(3600),
        }
    }
}

/// Level-synchronous parallel BFS. Deterministic: the result (state numbering, parents,
/// which violation is reported) does not depend on the number of threads.
pub fn bfs<S: Sys>(sys: &S, threads: usize, caps: &Caps, cx: &mut Ctx) -> BfsOut {
    let t0 = Instant::now();
    let mut states: Vec<StateRec> = Vec::new();
    let mut seen: HashMap<Snap, u32> = HashMap::new();
    let init = {
        let mut q = cx.fork();
        q.quiet = true;
        sys.run(&[], None, &mut q).before
    };
    states.push(StateRec {
        snap: init,
        parent: u32::MAX,
        op: 0,
        depth: 0,
    });
    seen.insert(init, 0);
    let mut lo = 0usize;
    let mut transitions = 0u64;
    let mut capped = None;
    let n_ops = sys.n_ops();
    let mut depth = 0u16;
    while lo < states.len() {
        let hi = states.len();
        let nfront = hi - lo;
        let chunk = (nfront / (threads * 8)).max(1);
        let nchunks = nfront.div_ceil(chunk);
        let next = AtomicUsize::new(0);
        let states_ref = &states;
        let seen_ref = &seen;
        let config = sys.config();
        // each chunk yields: (ctx, transitions, discoveries [(state, op, snap)])
        let results: Vec<Option<(Ctx, u64, Vec<(u32, u32, Snap)>)>> = (0..nchunks).map(|_| None).collect();
        let results_mx = std::sync::Mutex::new(results);
        let over = std::sync::atomic::AtomicBool::new(false);
        std::thread::scope(|sc| {
            for _ in 0..threads.min(nchunks) {
                sc.spawn(|| loop {
                    let c = next.fetch_add(1, Ordering::Relaxed);
                    if c >= nchunks {
                        break;
                    }
                    if t0.elapsed() > caps.wall {
                        over.store(true, Ordering::Relaxed);
                        break;
                    }
                    let mut lcx = Ctx::new(cx.enabled);
                    lcx.max_samples = 2;
                    lcx.here.config = config.clone();
                    let mut tr = 0u64;
                    let mut disc: Vec<(u32, u32, Snap)> = Vec::new();
                    let a = lo + c * chunk;
                    let b = (a + chunk).min(hi);
                    for s in a..b {
                        let path = path_of(states_ref, s);
                        let names: Vec<String> = path.iter().map(|i| sys.op_name(*i as usize)).collect();
                        for op in 0..n_ops {
                            lcx.here.path_idx.clone_from(&path);
                            lcx.here.path.clone_from(&names);
                            lcx.here.op_idx = op as u32;
                            let out = match std::panic::catch_unwind(std::panic::AssertUnwindSafe(|| sys.run(&path, Some(op as u32), &mut lcx))) {
                                Ok(o) => o,
                                Err(e) => {
                                    // a panic outside the judged call: the container's own API panicked
                                    // while being observed or torn down
                                    let msg = panic_text(e);
                                    lcx.quiet = false;
                                    lcx.here.op = sys.op_name(op);
                                    let en = lcx.enabled;
                                    lcx.violate(en, format!("the container panicked while being observed after the call: {msg}"));
                                    tr += 1;
                                    continue;
                                }
                            };
                            if out.before != states_ref[s].snap {
                                lcx.machinery(format!(
                                    "replay divergence: state {} expected {} got {} (path {:?})",
                                    s,
                                    states_ref[s].snap.render(),
                                    out.before.render(),
                                    names
                                ));
                                break;
                            }
                            if let Some(after) = out.after {
                                tr += 1;
                                if out.explore && !seen_ref.contains_key(&after) {
                                    disc.push((s as u32, op as u32, after));
                                }
                            }
                        }
                    }
                    let mut g = results_mx.lock().unwrap();
                    g[c] = Some((lcx, tr, disc));
                });
            }
        });
        if over.load(Ordering::Relaxed) {
            capped = Some(format!("wall cap {:?} hit at depth {}", caps.wall, depth));
        }
        depth += 1;
        let results = results_mx.into_inner().unwrap();
        for r in results.into_iter() {
            let Some((lcx, tr, disc)) = r else { continue };
            cx.merge(lcx);
            transitions += tr;
            for (s, op, snap) in disc {
                if !seen.contains_key(&snap) {
                    let id = states.len() as u32;
                    seen.insert(snap, id);
                    states.push(StateRec {
                        snap,
                        parent: s,
                        op,
                        depth,
                    });
                }
            }
        }
        lo = hi;
        if capped.is_some() {
            break;
        }
        if states.len() > caps.max_states {
            capped = Some(format!("state cap {} hit at depth {}", caps.max_states, depth));
            break;
        }
    }
    let max_depth = states.iter().map(|s| s.depth).max().unwrap_or(0);
    BfsOut {
        states,
        transitions,
        max_depth,
        capped,
    }
}

/// Run `f` once per state, in parallel, merging the contexts deterministically.
pub fn par_states<F>(n: usize, threads: usize, cx: &mut Ctx, f: F)
where
    F: Fn(usize, &mut Ctx) + Sync,
{
    if n == 0 {
        return;
    }
    let chunk = (n / (threads * 8)).max(1);
    let nchunks = n.div_ceil(chunk);
    let next = AtomicUsize::new(0);
    let results: Vec<Option<Ctx>> = (0..nchunks).map(|_| None).collect();
    let results_mx = std::sync::Mutex::new(results);
    let enabled = cx.enabled;
    let config = cx.here.config.clone();
    std::thread::scope(|sc| {
        for _ in 0..threads.min(nchunks) {
            sc.spawn(|| loop {
                let c = next.fetch_add(1, Ordering::Relaxed);
                if c >= nchunks {
                    break;
                }
                let mut lcx = Ctx::new(enabled);
                lcx.max_samples = 2;
                lcx.here.config = config.clone();
                let a = c * chunk;
                let b = (a + chunk).min(n);
                for s in a..b {
                    if let Err(e) = std::panic::catch_unwind(std::panic::AssertUnwindSafe(|| f(s, &mut lcx))) {
                        let msg = panic_text(e);
                        lcx.quiet = false;
                        let en = lcx.enabled;
                        lcx.violate(en, format!("the container panicked while being observed: {msg}"));
                    }
                }
                results_mx.lock().unwrap()[c] = Some(lcx);
            });
        }
    });
    let results = results_mx.into_inner().unwrap();
    for r in results.into_iter().flatten() {
        cx.merge(r);
    }
}

/// Closed forms used for the non-vacuity cross-check.
pub fn layouts_closed_form(n: usize, k: usize, a: usize) -> u64 {
    // sum_{j<=min(n,k)} k!/(k-j)! * a^j
    let mut total = 0u64;
    for j in 0..=n.min(k) {
        let mut perm = 1u64;
        for i in 0..j {
            perm *= (k - i) as u64;
        }
        total += perm * (a as u64).pow(j as u32);
    }
    total
}
pub fn abstract_closed_form(n: usize, k: usize, a: usize) -> u64 {
    let mut total = 0u64;
    for j in 0..=n.min(k) {
        let mut c = 1u64;
        for i in 0..j {
            c = c * (k - i) as u64 / (i as u64 + 1);
        }
        total += c * (a as u64).pow(j as u32);
    }
    total
}

/// Re-execute one recorded (history, op) on a fresh object, twice, without the explorer.
/// Returns (exit code, report): 1 if a violation is observed, 2 if the two runs disagree.
pub fn replay<S: Sys>(sys: &S, path: &[u32], op: Option<u32>, enabled: crate::ctx::PMask) -> (i32, crate::json::J) {
    use crate::json::J;
    let mut outs = Vec::new();
    for _ in 0..2 {
        let mut cx = Ctx::new(enabled);
        cx.here.config = sys.config();
        cx.here.path_idx = path.to_vec();
        cx.here.path = path.iter().map(|i| sys.op_name(*i as usize)).collect();
        if let Some(o) = op {
            cx.here.op_idx = o;
        }
        let out = sys.run(path, op, &mut cx);
        let mut v: Vec<J> = Vec::new();
        let mut classes: Vec<String> = Vec::new();
        for (i, b) in cx.best.iter().enumerate() {
            if let Some(b) = b {
                v.push(b.to_json().set("reported_for", crate::ctx::pname(i)));
                classes.push(format!("{}:{}", crate::ctx::pname(i), cx.viol_total[i] > 0));
            }
        }
        outs.push((out.before, out.after, classes, v, cx.machinery_errors.clone()));
    }
    let same = outs[0].0 == outs[1].0 && outs[0].1 == outs[1].1 && outs[0].2 == outs[1].2;
    let (before, after, _, v, mach) = outs.remove(0);
    let nviol = v.len();
    let j = J::obj()
        .set("config", sys.config())
        .set("history", path.iter().map(|i| sys.op_name(*i as usize)).collect::<Vec<_>>())
        .set("op", op.map(|o| sys.op_name(o as usize)).unwrap_or_default())
        .set("state_before", before.render())
        .set("state_after", after.map(|a| a.render()).unwrap_or_default())
        .set("deterministic", same)
        .set("violations", J::Arr(v))
        .set("machinery_errors", mach.clone());
    let code = if !same || !mach.is_empty() {
        2
    } else if nviol > 0 {
        1
    } else {
        0
    };
    (code, j)
}

pub fn parse_idx_list(s: &str) -> Vec<u32> {
    s.split(',').filter(|x| !x.is_empty()).filter_map(|x| x.trim().parse().ok()).collect()
}

/// Run the BFS for one configuration and fold the result into the engine report, with the
/// non-vacuity cross-check against the closed-form number of abstract states.
pub fn explore_and_report<S: Sys>(
    sys: &S,
    rep: &mut crate::ctx::EngineReport,
    threads: usize,
    caps: &Caps,
    abs_want: Option<u64>,
    layouts: Option<u64>,
) -> BfsOut {
    use crate::json::J;
    let mut cx = rep.cx.fork();
    cx.here.config = sys.config();
    let t0 = Instant::now();
    let out = bfs(sys, threads, caps, &mut cx);
    let abs: std::collections::HashSet<Vec<(u8, u8, u8)>> = out.states.iter().map(|s| s.snap.abstracted()).collect();
    if let Some(want) = abs_want {
        if out.capped.is_none() && cx.total_violations() == 0 && abs.len() as u64 != want {
            cx.machinery(format!(
                "vacuity: {} distinct abstract states visited, closed form says {want} ({})",
                abs.len(),
                cx.here.config
            ));
        }
    }
    if let Some(c) = &out.capped {
        rep.caps_hit.push(format!("{}: {c}", cx.here.config));
    }
    let mut j = J::obj()
        .set("config", cx.here.config.as_str())
        .set("ops_in_alphabet", sys.n_ops())
        .set("states", out.states.len())
        .set("abstract_states", abs.len())
        .set("transitions", out.transitions)
        .set("max_depth", out.max_depth as u64)
        .set("wall_s", t0.elapsed().as_secs_f64());
    if let Some(w) = abs_want {
        j.put("abstract_closed_form", w);
    }
    if let Some(l) = layouts {
        j.put("layouts_closed_form", l);
    }
    rep.configs.push(j);
    rep.states += out.states.len() as u64;
    rep.transitions += out.transitions;
    rep.cx.merge(cx);
    out
}

pub fn panic_text(e: Box<dyn std::any::Any + Send>) -> String {
    if let Some(s) = e.downcast_ref::<&'static str>() {
        (*s).to_string()
    } else if let Some(s) = e.downcast_ref::<String>() {
        s.clone()
    } else if e.downcast_ref::<crate::payload::Injected>().is_some() {
        "injected panic escaped".to_string()
    } else {
        "<non-string panic payload>".to_string()
    }
}
