//! Minimal JSON value with a writer and a reader (no external crates are needed offline).

use std::collections::BTreeMap;
use std::fmt::Write;

#[derive(Clone, Debug, PartialEq)]
pub enum J {
    Null,
    Bool(bool),
    Int(i64),
    Num(f64),
    Str(String),
    Arr(Vec<J>),
    Obj(BTreeMap<String, J>),
}

impl J {
    pub fn obj() -> J {
        J::Obj(BTreeMap::new())
    }
    pub fn set(mut self, k: &str, v: impl Into<J>) -> J {
        if let J::Obj(m) = &mut self {
            m.insert(k.to_string(), v.into());
        }
        self
    }
    pub fn put(&mut self, k: &str, v: impl Into<J>) {
        if let J::Obj(m) = self {
            m.insert(k.to_string(), v.into());
        }
    }
    pub fn get(&self, k: &str) -> Option<&J> {
        match self {
            J::Obj(m) => m.get(k),
            _ => None,
        }
    }
    pub fn as_str(&self) -> Option<&str> {
        match self {
            J::Str(s) => Some(s),
            _ => None,
        }
    }
    pub fn as_i64(&self) -> Option<i64> {
        match self {
            J::Int(i) => Some(*i),
            J::Num(f) => Some(*f as i64),
            _ => None,
        }
    }
    pub fn as_arr(&self) -> Option<&Vec<J>> {
        match self {
            J::Arr(a) => Some(a),
            _ => None,
        }
    }
    pub fn dump(&self) -> String {
        let mut s = String::new();
        self.write(&mut s, 0, true);
        s
    }
    pub fn dump_compact(&self) -> String {
        let mut s = String::new();
        self.write(&mut s, 0, false);
        s
    }
    fn write(&self, out: &mut String, ind: usize, pretty: bool) {
        match self {
            J::Null => out.push_str("null"),
            J::Bool(b) => out.push_str(if *b { "true" } else { "false" }),
            J::Int(i) => {
                let _ = write!(out, "{i}");
            }
            J::Num(f) => {
                if f.is_finite() {
                    let _ = write!(out, "{f:.3}");
                } else {
                    out.push_str("null");
                }
            }
            J::Str(s) => esc(out, s),
            J::Arr(a) => {
                out.push('[');
                let simple = a.iter().all(|x| !matches!(x, J::Arr(_) | J::Obj(_)));
                for (i, x) in a.iter().enumerate() {
                    if i > 0 {
                        out.push(',');
                    }
                    if pretty && !simple {
                        out.push('\n');
                        pad(out, ind + 1);
                    } else if i > 0 {
                        out.push(' ');
                    }
                    x.write(out, ind + 1, pretty);
                }
                if pretty && !simple && !a.is_empty() {
                    out.push('\n');
                    pad(out, ind);
                }
                out.push(']');
            }
            J::Obj(m) => {
                out.push('{');
                for (i, (k, v)) in m.iter().enumerate() {
                    if i > 0 {
                        out.push(',');
                    }
                    if pretty {
                        out.push('\n');
                        pad(out, ind + 1);
                    } else if i > 0 {
                        out.push(' ');
                    }
                    esc(out, k);
                    out.push_str(": ");
                    v.write(out, ind + 1, pretty);
                }
                if pretty && !m.is_empty() {
                    out.push('\n');
                    pad(out, ind);
                }
                out.push('}');
            }
        }
    }
}

fn pad(out: &mut String, n: usize) {
    for _ in 0..n {
        out.push(' ');
    }
}
fn esc(out: &mut String, s: &str) {
    out.push('"');
    for c in s.chars() {
        match c {
            '"' => out.push_str("\\\""),
            '\\' => out.push_str("\\\\"),
            '\n' => out.push_str("\\n"),
            '\r' => out.push_str("\\r"),
            '\t' => out.push_str("\\t"),
            c if (c as u32) < 0x20 => {
                let _ = write!(out, "\\u{:04x}", c as u32);
            }
            c => out.push(c),
        }
    }
    out.push('"');
}

impl From<bool> for J {
    fn from(b: bool) -> J {
        J::Bool(b)
    }
}
impl From<i64> for J {
    fn from(i: i64) -> J {
        J::Int(i)
    }
}
impl From<u64> for J {
    fn from(i: u64) -> J {
        J::Int(i as i64)
    }
}
impl From<usize> for J {
    fn from(i: usize) -> J {
        J::Int(i as i64)
    }
}
impl From<u32> for J {
    fn from(i: u32) -> J {
        J::Int(i as i64)
    }
}
impl From<i32> for J {
    fn from(i: i32) -> J {
        J::Int(i as i64)
    }
}
impl From<f64> for J {
    fn from(f: f64) -> J {
        J::Num(f)
    }
}
impl From<&str> for J {
    fn from(s: &str) -> J {
        J::Str(s.to_string())
    }
}
impl From<String> for J {
    fn from(s: String) -> J {
        J::Str(s)
    }
}
impl<T: Into<J>> From<Vec<T>> for J {
    fn from(v: Vec<T>) -> J {
        J::Arr(v.into_iter().map(Into::into).collect())
    }
}

// ---------------------------------------------------------------------------------------
// reader (enough for our own replay files)
// ---------------------------------------------------------------------------------------
pub fn parse(s: &str) -> Result<J, String> {
    let b = s.as_bytes();
    let mut p = 0usize;
    let v = pv(b, &mut p)?;
    ws(b, &mut p);
    if p != b.len() {
        return Err(format!("trailing data at {p}"));
    }
    Ok(v)
}
fn ws(b: &[u8], p: &mut usize) {
    while *p < b.len() && (b[*p] as char).is_ascii_whitespace() {
        *p += 1;
    }
}
fn pv(b: &[u8], p: &mut usize) -> Result<J, String> {
    ws(b, p);
    if *p >= b.len() {
        return Err("eof".into());
    }
    match b[*p] {
        b'{' => {
            *p += 1;
            let mut m = BTreeMap::new();
            loop {
                ws(b, p);
                if *p < b.len() && b[*p] == b'}' {
                    *p += 1;
                    break;
                }
                let k = match pv(b, p)? {
                    J::Str(s) => s,
                    _ => return Err("key".into()),
                };
                ws(b, p);
                if *p >= b.len() || b[*p] != b':' {
                    return Err(format!("expected : at {p}"));
                }
                *p += 1;
                let v = pv(b, p)?;
                m.insert(k, v);
                ws(b, p);
                if *p < b.len() && b[*p] == b',' {
                    *p += 1;
                }
            }
            Ok(J::Obj(m))
        }
        b'[' => {
            *p += 1;
            let mut a = Vec::new();
            loop {
                ws(b, p);
                if *p < b.len() && b[*p] == b']' {
                    *p += 1;
                    break;
                }
                a.push(pv(b, p)?);
                ws(b, p);
                if *p < b.len() && b[*p] == b',' {
                    *p += 1;
                }
            }
            Ok(J::Arr(a))
        }
        b'"' => {
            *p += 1;
            let mut s = String::new();
            while *p < b.len() && b[*p] != b'"' {
                if b[*p] == b'\\' {
                    *p += 1;
                    match b.get(*p) {
                        Some(b'n') => s.push('\n'),
                        Some(b't') => s.push('\t'),
                        Some(b'r') => s.push('\r'),
                        Some(b'u') => {
                            let h = std::str::from_utf8(&b[*p + 1..*p + 5]).map_err(|e| e.to_string())?;
                            let c = u32::from_str_radix(h, 16).map_err(|e| e.to_string())?;
                            s.push(char::from_u32(c).unwrap_or('?'));
                            *p += 4;
                        }
                        Some(c) => s.push(*c as char),
                        None => return Err("eof in string".into()),
                    }
                    *p += 1;
                } else {
                    // copy one UTF-8 char
                    let st = *p;
                    *p += 1;
                    while *p < b.len() && (b[*p] & 0xC0) == 0x80 {
                        *p += 1;
                    }
                    s.push_str(std::str::from_utf8(&b[st..*p]).map_err(|e| e.to_string())?);
                }
            }
            *p += 1;
            Ok(J::Str(s))
        }
        b't' => {
            *p += 4;
            Ok(J::Bool(true))
        }
        b'f' => {
            *p += 5;
            Ok(J::Bool(false))
        }
        b'n' => {
            *p += 4;
            Ok(J::Null)
        }
        _ => {
            let st = *p;
            while *p < b.len() && matches!(b[*p], b'0'..=b'9' | b'-' | b'+' | b'.' | b'e' | b'E') {
                *p += 1;
            }
            let t = std::str::from_utf8(&b[st..*p]).map_err(|e| e.to_string())?;
            if let Ok(i) = t.parse::<i64>() {
                Ok(J::Int(i))
            } else {
                t.parse::<f64>().map(J::Num).map_err(|e| format!("{e} at {st}"))
            }
        }
    }
}
