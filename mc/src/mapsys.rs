//! The Map system under exploration: operation alphabet, reference model, execution of one
//! operation on the real `micromap::Map` and the per-step oracle.

use crate::bfs::{RunOut, Snap, Sys};
use crate::ctx::*;
use crate::payload::{self as pl, KeyT, ValT, KD, NOID, VD};
use micromap::{Entry, Map};
use std::collections::BTreeMap;
use std::borrow::Borrow;
use std::fmt;
use std::marker::PhantomData;
use std::panic::{catch_unwind, AssertUnwindSafe};

// ------------------------------------------------------------------------------------------
// Alphabet
// ------------------------------------------------------------------------------------------
#[derive(Clone, Copy, PartialEq, Eq, Debug)]
pub enum Form {
    /// lookup through `&K` (a fresh, equal but distinguishable key object)
    Key,
    /// lookup through the borrowed form `&K::Q`
    Q,
}

#[derive(Clone, Copy, PartialEq, Eq, Debug)]
pub enum EChain {
    Key,
    OrInsert,
    OrInsertWith,
    OrInsertWithKey,
    OrDefault,
    AndModifyOrInsert,
    OKey,
    OGet,
    OGetMutWrite,
    OInsert,
    ORemove,
    ORemoveEntry,
    OIntoMutWrite,
    VKey,
    VIntoKey,
    VInsert,
}
impl EChain {
    pub const ALL: [EChain; 16] = [
        EChain::Key,
        EChain::OrInsert,
        EChain::OrInsertWith,
        EChain::OrInsertWithKey,
        EChain::OrDefault,
        EChain::AndModifyOrInsert,
        EChain::OKey,
        EChain::OGet,
        EChain::OGetMutWrite,
        EChain::OInsert,
        EChain::ORemove,
        EChain::ORemoveEntry,
        EChain::OIntoMutWrite,
        EChain::VKey,
        EChain::VIntoKey,
        EChain::VInsert,
    ];
    fn needs_value(self) -> bool {
        matches!(
            self,
            EChain::OrInsert
                | EChain::OrInsertWith
                | EChain::OrInsertWithKey
                | EChain::AndModifyOrInsert
                | EChain::OGetMutWrite
                | EChain::OInsert
                | EChain::OIntoMutWrite
                | EChain::VInsert
        )
    }
    fn occupied_only(self) -> bool {
        matches!(
            self,
            EChain::OKey
                | EChain::OGet
                | EChain::OGetMutWrite
                | EChain::OInsert
                | EChain::ORemove
                | EChain::ORemoveEntry
                | EChain::OIntoMutWrite
        )
    }
    fn vacant_only(self) -> bool {
        matches!(self, EChain::VKey | EChain::VIntoKey | EChain::VInsert)
    }
}

#[derive(Clone, Copy, PartialEq, Eq, Debug)]
pub enum MapOp {
    Insert { k: u8, t: u8, v: u8 },
    InsertKV { k: u8, t: u8, v: u8 },
    CheckedInsert { k: u8, t: u8, v: u8 },
    InsertUnchecked { k: u8, t: u8, v: u8 },
    Remove { k: u8, f: Form },
    RemoveEntry { k: u8, f: Form },
    Get { k: u8, f: Form },
    GetMutWrite { k: u8, f: Form, v: u8 },
    GetKeyValue { k: u8, f: Form },
    ContainsKey { k: u8, f: Form },
    Index { k: u8, f: Form },
    IndexMutWrite { k: u8, f: Form, v: u8 },
    Retain { keep: u8, mutate: bool },
    /// `retain` with a *stateful* predicate: its i-th answer is bit i of the tape, whatever entry it is
    /// shown (an ideal dictionary shows every entry to the predicate exactly once; asking twice, or
    /// deciding by anything but the one answer given for that entry, changes the result)
    RetainTape { tape: u8, mutate: bool },
    Clear,
    Drain { take: u8, forget: bool },
    Entry { k: u8, t: u8, chain: EChain, v: u8 },
    IterMutWrite { v: u8 },
    ValuesMutWrite { v: u8 },
}

impl fmt::Display for MapOp {
    fn fmt(&self, f: &mut fmt::Formatter<'_>) -> fmt::Result {
        write!(f, "{self:?}")
    }
}

impl MapOp {
    pub fn base_props(&self) -> PMask {
        match self {
            MapOp::InsertUnchecked { .. } => C18,
            MapOp::Entry { .. } => C11,
            MapOp::IterMutWrite { .. } | MapOp::ValuesMutWrite { .. } => C09,
            MapOp::Drain { .. } => C01 | C10,
            _ => C01,
        }
    }
    /// Properties whose statements cover this operation: its own, plus the cross-cutting ones
    /// (ownership, full-container behaviour, invariants, no-heap, key identity) for every *safe*
    /// operation. `insert_unchecked` is the business of C18 alone, which demands all of those
    /// guarantees of it within its contract. An engine run restricted to other properties neither
    /// judges nor (unless it is needed to reach states) executes the operation, so that a defect
    /// confined to one entry point is attributed to the properties that speak about it.
    pub fn relevant(&self) -> PMask {
        const CROSS: PMask = C02 | C03 | C05 | C06 | C12;
        match self {
            MapOp::InsertUnchecked { .. } => C18,
            _ => self.base_props() | CROSS,
        }
    }
    /// Operations of the generating alphabet: needed to reach every state, so they are always
    /// executed (quietly when no enabled property covers them).
    pub fn generating(&self) -> bool {
        matches!(self, MapOp::Insert { .. } | MapOp::InsertKV { .. } | MapOp::Remove { f: Form::Key, .. })
    }
    pub fn is_insertion(&self) -> bool {
        matches!(
            self,
            MapOp::Insert { .. }
                | MapOp::InsertKV { .. }
                | MapOp::CheckedInsert { .. }
                | MapOp::InsertUnchecked { .. }
                | MapOp::Entry { .. }
        )
    }
}

#[derive(Clone, Copy, PartialEq, Eq, Debug)]
pub enum Alpha {
    /// every operation of the Map engine
    Full,
    /// a generating subset that reaches every layout (used by observer engines)
    Gen,
    /// reduced alphabet for the no-merge history engine
    Hist,
}

pub fn alphabet<K: KeyT, V: ValT>(n: usize, nk: u8, nv: u8, which: Alpha) -> Vec<MapOp> {
    let mut a = Vec::new();
    let tags = K::TAGS;
    let forms: &[Form] = if K::DISTINCT_Q { &[Form::Key, Form::Q] } else { &[Form::Key] };
    match which {
        Alpha::Gen => {
            for k in 0..nk {
                for t in 0..tags {
                    for v in 0..nv {
                        a.push(MapOp::Insert { k, t, v });
                    }
                }
            }
            for k in 0..nk {
                a.push(MapOp::Remove { k, f: Form::Key });
            }
            for k in 0..nk {
                for t in 0..tags {
                    for v in 0..nv {
                        a.push(MapOp::InsertKV { k, t, v });
                    }
                }
            }
        }
        Alpha::Hist => {
            let t1 = tags - 1;
            for k in 0..nk {
                a.push(MapOp::Insert { k, t: 0, v: 0 });
            }
            for k in 0..nk.min(2) {
                a.push(MapOp::InsertKV { k, t: t1, v: nv - 1 });
            }
            for k in 0..nk {
                a.push(MapOp::Remove { k, f: *forms.last().unwrap() });
            }
            a.push(MapOp::RemoveEntry { k: 0, f: Form::Key });
            a.push(MapOp::Retain { keep: 0b0101_0101, mutate: true });
            a.push(MapOp::RetainTape { tape: 0b1111_1010, mutate: false });
            a.push(MapOp::Entry { k: 1 % nk, t: t1, chain: EChain::ORemove, v: 0 });
            a.push(MapOp::Entry { k: 0, t: t1, chain: EChain::OrInsert, v: nv - 1 });
            a.push(MapOp::Drain { take: 1, forget: true });
            a.push(MapOp::Clear);
            a.push(MapOp::CheckedInsert { k: nk - 1, t: t1, v: nv - 1 });
            // lookups inside histories: state an implementation might keep *besides* the slots (a cached
            // index, a hint) is set by lookups and must survive the mutations that follow them
            a.push(MapOp::Get { k: 0, f: Form::Key });
            a.push(MapOp::Get { k: nk - 1, f: *forms.last().unwrap() });
            a.push(MapOp::GetMutWrite { k: 1 % nk, f: Form::Key, v: nv - 1 });
        }
        Alpha::Full => {
            for k in 0..nk {
                for t in 0..tags {
                    for v in 0..nv {
                        a.push(MapOp::Insert { k, t, v });
                    }
                }
            }
            for k in 0..nk {
                for &f in forms {
                    a.push(MapOp::Remove { k, f });
                }
            }
            for k in 0..nk {
                for t in 0..tags {
                    for v in 0..nv {
                        a.push(MapOp::InsertKV { k, t, v });
                    }
                }
            }
            for k in 0..nk {
                for t in 0..tags {
                    for v in 0..nv {
                        a.push(MapOp::CheckedInsert { k, t, v });
                    }
                }
            }
            for k in 0..nk {
                for t in 0..tags {
                    for v in 0..nv {
                        a.push(MapOp::InsertUnchecked { k, t, v });
                    }
                }
            }
            for k in 0..nk {
                for &f in forms {
                    a.push(MapOp::RemoveEntry { k, f });
                    a.push(MapOp::Get { k, f });
                    a.push(MapOp::GetKeyValue { k, f });
                    a.push(MapOp::ContainsKey { k, f });
                    a.push(MapOp::Index { k, f });
                    for v in 0..nv {
                        a.push(MapOp::GetMutWrite { k, f, v });
                        a.push(MapOp::IndexMutWrite { k, f, v });
                    }
                }
            }
            for keep in 0..(1u16 << nk) {
                a.push(MapOp::Retain { keep: keep as u8, mutate: false });
                if nv > 1 {
                    a.push(MapOp::Retain { keep: keep as u8, mutate: true });
                }
            }
            // every answer tape of n+1 bits (bit n answers every call beyond the n-th, if there is one)
            for tape in 0..(1u16 << (n.min(6) + 1)) {
                let tape = if tape >> n.min(6) & 1 != 0 { tape as u8 | (0xffu8 << n.min(6)) } else { tape as u8 };
                a.push(MapOp::RetainTape { tape, mutate: false });
                if nv > 1 && n > 0 {
                    a.push(MapOp::RetainTape { tape, mutate: true });
                }
            }
            a.push(MapOp::Clear);
            for take in 0..=(n as u8 + 1) {
                a.push(MapOp::Drain { take, forget: false });
                a.push(MapOp::Drain { take, forget: true });
            }
            for k in 0..nk {
                for t in 0..tags {
                    for chain in EChain::ALL {
                        if chain.needs_value() {
                            for v in 0..nv {
                                a.push(MapOp::Entry { k, t, chain, v });
                            }
                        } else {
                            a.push(MapOp::Entry { k, t, chain, v: 0 });
                        }
                    }
                }
            }
            for v in 0..nv {
                a.push(MapOp::IterMutWrite { v });
                a.push(MapOp::ValuesMutWrite { v });
            }
        }
    }
    a
}

// ------------------------------------------------------------------------------------------
// Reference model: an ideal bounded dictionary. Knows nothing about slots or order.
// ------------------------------------------------------------------------------------------
#[derive(Clone, Debug, Default)]
pub struct RefMap {
    pub cap: usize,
    pub m: BTreeMap<u8, (KD, VD)>,
    /// entries whose key is not equal to itself (non-reflexive key mode): never found by any
    /// lookup, never replaced, each occupies a slot until retain/clear/drain takes it out
    pub nans: Vec<(KD, VD)>,
}

fn is_nan(k: u8) -> bool {
    pl::nan_code() == Some(k)
}

impl RefMap {
    pub fn new(cap: usize) -> Self {
        RefMap { cap, m: BTreeMap::new(), nans: Vec::new() }
    }
    pub fn entries(&self) -> Vec<(KD, VD)> {
        self.m.values().chain(self.nans.iter()).copied().collect()
    }
    pub fn total(&self) -> usize {
        self.m.len() + self.nans.len()
    }
    pub fn stored_ids(&self) -> Vec<u32> {
        let mut v = Vec::new();
        for (k, x) in self.m.values().chain(self.nans.iter()) {
            if k.id != NOID {
                v.push(k.id);
            }
            if x.id != NOID {
                v.push(x.id);
            }
        }
        v
    }
    pub fn full(&self) -> bool {
        self.total() >= self.cap
    }
    /// an insertion of a key that is not equal to itself: always a new entry
    fn insert_nan(&mut self, kd: KD, vd: VD) -> ModelOut {
        if self.full() {
            let mut o = ModelOut::exact(vec![F::Panic]);
            o.overflow = true;
            o
        } else {
            self.nans.push((kd, vd));
            ModelOut::exact(vec![F::None])
        }
    }
}

/// One observable field of a result.
#[derive(Clone, Copy, Debug, PartialEq, Eq, PartialOrd, Ord)]
pub enum F {
    None,
    Panic,
    B(bool),
    U(u32),
    K(KD),
    V(VD),
}
pub type Ret = Vec<F>;

fn strip_ids(r: &Ret, keep_key_identity: bool) -> Ret {
    r.iter()
        .map(|f| match f {
            F::K(k) => F::K(KD {
                id: if keep_key_identity { k.id } else { NOID },
                k: k.k,
                tag: if keep_key_identity { k.tag } else { 0 },
            }),
            F::V(v) => F::V(VD { id: NOID, v: v.v }),
            x => *x,
        })
        .collect()
}

pub enum RetSpec {
    Exact(Ret),
    /// (drain) `count` distinct entries taken from the stored entries
    SomeEntries { count: usize, from: Vec<(KD, VD)> },
    /// every stored entry exactly once, any order (iter_mut style visits)
    AllEntries { from: Vec<(KD, VD)>, keys: bool },
}

pub struct ModelOut {
    pub ret: RetSpec,
    /// the model says the container must refuse (absent key, container full)
    pub overflow: bool,
    /// the model says the call must panic for another reason (missing index)
    pub other_panic: bool,
    /// ids that may legitimately be leaked (forgotten drain)
    pub leak_ok: Vec<u32>,
    /// expected number of closure invocations, if the op has a counted closure
    pub calls: Option<u32>,
    /// the op is an insertion whose key was already present (stored-key identity case)
    pub identity_case: bool,
    /// a visiting operation (retain) did not show its callback every stored entry exactly once
    pub visit_error: Option<String>,
}

impl ModelOut {
    fn exact(r: Ret) -> Self {
        ModelOut {
            ret: RetSpec::Exact(r),
            overflow: false,
            other_panic: false,
            leak_ok: Vec::new(),
            calls: None,
            identity_case: false,
            visit_error: None,
        }
    }
}

#[derive(Clone, Copy, Debug)]
pub struct ArgD {
    pub kd: Option<KD>,
    pub vd: Option<VD>,
    pub v2d: Option<VD>,
    pub default_vd: VD,
}

pub fn applicable(model: &RefMap, op: &MapOp) -> bool {
    // a key that is not equal to itself has no lawful borrowed form: it is only looked up as a key
    if let MapOp::Remove { k, f: Form::Q }
    | MapOp::RemoveEntry { k, f: Form::Q }
    | MapOp::Get { k, f: Form::Q }
    | MapOp::GetMutWrite { k, f: Form::Q, .. }
    | MapOp::GetKeyValue { k, f: Form::Q }
    | MapOp::ContainsKey { k, f: Form::Q }
    | MapOp::Index { k, f: Form::Q }
    | MapOp::IndexMutWrite { k, f: Form::Q, .. } = *op
    {
        if is_nan(k) {
            return false;
        }
    }
    match *op {
        MapOp::InsertUnchecked { k, .. } => !model.full() || model.m.contains_key(&k),
        MapOp::Entry { k, chain, .. } => {
            let present = model.m.contains_key(&k);
            !(chain.occupied_only() && !present) && !(chain.vacant_only() && present)
        }
        MapOp::Drain { take, .. } => (take as usize) <= model.total() + 1,
        _ => true,
    }
}

fn opt_v(x: Option<VD>) -> Ret {
    match x {
        Some(v) => vec![F::V(v)],
        None => vec![F::None],
    }
}

pub fn exec_model(model: &mut RefMap, op: &MapOp, a: &ArgD, nv: u8, visits: &[(Option<KD>, VD)]) -> ModelOut {
    // non-reflexive key: every insertion path appends (or is refused when full)
    match *op {
        MapOp::Insert { k, .. } | MapOp::InsertUnchecked { k, .. } | MapOp::InsertKV { k, .. } if is_nan(k) => {
            return model.insert_nan(a.kd.unwrap(), a.vd.unwrap());
        }
        MapOp::CheckedInsert { k, .. } if is_nan(k) => {
            return if model.full() {
                let mut o = ModelOut::exact(vec![F::None]);
                o.overflow = true;
                o
            } else {
                model.nans.push((a.kd.unwrap(), a.vd.unwrap()));
                ModelOut::exact(vec![F::B(true), F::None])
            };
        }
        MapOp::Entry { k, chain, .. } if is_nan(k) => {
            let kd = a.kd.unwrap();
            let full = model.full();
            let ins = |model: &mut RefMap, vd: VD, ret: Ret| {
                if full {
                    let mut o = ModelOut::exact(vec![F::Panic]);
                    o.overflow = true;
                    o
                } else {
                    model.nans.push((kd, vd));
                    ModelOut::exact(ret)
                }
            };
            return match chain {
                EChain::Key | EChain::VKey | EChain::VIntoKey => ModelOut::exact(vec![F::B(false), F::K(kd)]),
                EChain::OrInsert | EChain::OrInsertWith | EChain::OrInsertWithKey => {
                    let vd = a.vd.unwrap();
                    let mut o = ins(model, vd, vec![F::V(vd)]);
                    if chain != EChain::OrInsert {
                        o.calls = Some(1);
                    }
                    o
                }
                EChain::OrDefault => ins(model, a.default_vd, vec![F::V(a.default_vd)]),
                EChain::AndModifyOrInsert => {
                    let v2 = a.v2d.unwrap();
                    let mut o = ins(model, v2, vec![F::V(v2)]);
                    o.calls = Some(0);
                    o
                }
                EChain::VInsert => {
                    let vd = a.vd.unwrap();
                    ins(model, vd, vec![F::B(false), F::V(vd)])
                }
                _ => ModelOut::exact(vec![F::B(false)]),
            };
        }
        _ => {}
    }
    match *op {
        MapOp::Insert { k, .. } | MapOp::InsertUnchecked { k, .. } => {
            let vd = a.vd.unwrap();
            if let Some(e) = model.m.get_mut(&k) {
                let old = e.1;
                e.1 = vd;
                let mut o = ModelOut::exact(vec![F::V(old)]);
                o.identity_case = true;
                o
            } else if model.full() {
                let mut o = ModelOut::exact(vec![F::Panic]);
                o.overflow = true;
                o
            } else {
                model.m.insert(k, (a.kd.unwrap(), vd));
                ModelOut::exact(vec![F::None])
            }
        }
        MapOp::InsertKV { k, .. } => {
            let vd = a.vd.unwrap();
            let kd = a.kd.unwrap();
            if let Some(e) = model.m.get_mut(&k) {
                let old = *e;
                *e = (kd, vd);
                let mut o = ModelOut::exact(vec![F::K(old.0), F::V(old.1)]);
                o.identity_case = true;
                o
            } else if model.full() {
                let mut o = ModelOut::exact(vec![F::Panic]);
                o.overflow = true;
                o
            } else {
                model.m.insert(k, (kd, vd));
                ModelOut::exact(vec![F::None])
            }
        }
        MapOp::CheckedInsert { k, .. } => {
            let vd = a.vd.unwrap();
            if let Some(e) = model.m.get_mut(&k) {
                let old = e.1;
                e.1 = vd;
                let mut o = ModelOut::exact(vec![F::B(true), F::V(old)]);
                o.identity_case = true;
                o
            } else if model.full() {
                let mut o = ModelOut::exact(vec![F::None]);
                o.overflow = true; // refused without panicking
                o
            } else {
                model.m.insert(k, (a.kd.unwrap(), vd));
                ModelOut::exact(vec![F::B(true), F::None])
            }
        }
        MapOp::Remove { k, .. } => ModelOut::exact(opt_v(model.m.remove(&k).map(|e| e.1))),
        MapOp::RemoveEntry { k, .. } => match model.m.remove(&k) {
            Some((kd, vd)) => ModelOut::exact(vec![F::K(kd), F::V(vd)]),
            None => ModelOut::exact(vec![F::None]),
        },
        MapOp::Get { k, .. } => ModelOut::exact(opt_v(model.m.get(&k).map(|e| e.1))),
        MapOp::GetKeyValue { k, .. } => match model.m.get(&k) {
            Some((kd, vd)) => ModelOut::exact(vec![F::K(*kd), F::V(*vd)]),
            None => ModelOut::exact(vec![F::None]),
        },
        MapOp::ContainsKey { k, .. } => ModelOut::exact(vec![F::B(model.m.contains_key(&k))]),
        MapOp::Index { k, .. } => match model.m.get(&k) {
            Some((_, vd)) => ModelOut::exact(vec![F::V(*vd)]),
            None => {
                let mut o = ModelOut::exact(vec![F::Panic]);
                o.other_panic = true;
                o
            }
        },
        MapOp::GetMutWrite { k, .. } => match model.m.get_mut(&k) {
            Some(e) => {
                let old = e.1;
                e.1 = a.vd.unwrap();
                ModelOut::exact(vec![F::V(old)])
            }
            None => ModelOut::exact(vec![F::None]),
        },
        MapOp::IndexMutWrite { k, .. } => match model.m.get_mut(&k) {
            Some(e) => {
                let old = e.1;
                e.1 = a.vd.unwrap();
                ModelOut::exact(vec![F::V(old)])
            }
            None => {
                let mut o = ModelOut::exact(vec![F::Panic]);
                o.other_panic = true;
                o
            }
        },
        MapOp::Retain { keep, mutate } => {
            let from = model.entries();
            model.m.retain(|k, _| keep & (1 << k) != 0);
            model.nans.retain(|(k, _)| keep & (1 << k.k) != 0);
            if mutate {
                for e in model.m.values_mut().chain(model.nans.iter_mut()) {
                    e.1.v = (e.1.v + 1) % nv;
                }
            }
            let _ = from;
            ModelOut::exact(vec![])
        }
        MapOp::RetainTape { tape, mutate } => {
            let answer = |i: usize| tape >> i.min(7) & 1 != 0;
            let mut want: Vec<(u8, u8)> = model.entries().iter().map(|(k, v)| (k.k, v.v)).collect();
            want.sort_unstable();
            let mut got: Vec<(u8, u8)> = visits.iter().map(|(k, v)| (k.map_or(255, |k| k.k), v.v)).collect();
            got.sort_unstable();
            let mut o = ModelOut::exact(vec![]);
            if got != want {
                o.visit_error = Some(format!(
                    "retain showed its predicate the entries {got:?} (key, value; sorted) but the map held {want:?}: every entry must be shown exactly once"
                ));
            }
            // the one answer given for an entry decides (first visit, should there be several)
            let first = |k: &KD, by_id: bool| {
                visits.iter().position(|(vk, _)| vk.is_some_and(|vk| if by_id { vk.id == k.id } else { vk.k == k.k })).map(answer).unwrap_or(true)
            };
            model.m.retain(|_, (k, _)| first(k, false));
            model.nans.retain(|(k, _)| first(k, true));
            if mutate {
                for e in model.m.values_mut().chain(model.nans.iter_mut()) {
                    e.1.v = (e.1.v + 1) % nv;
                }
            }
            o
        }
        MapOp::Clear => {
            model.m.clear();
            model.nans.clear();
            ModelOut::exact(vec![])
        }
        MapOp::Drain { take, forget } => {
            let from = model.entries();
            let count = (take as usize).min(from.len());
            let leak_ok = if forget { model.stored_ids() } else { Vec::new() };
            model.m.clear();
            model.nans.clear();
            let mut o = ModelOut::exact(vec![]);
            o.ret = RetSpec::SomeEntries { count, from };
            o.leak_ok = leak_ok;
            o
        }
        MapOp::IterMutWrite { v } => {
            let from = model.entries();
            for e in model.m.values_mut().chain(model.nans.iter_mut()) {
                e.1.v = v;
            }
            let mut o = ModelOut::exact(vec![]);
            o.ret = RetSpec::AllEntries { from, keys: true };
            o
        }
        MapOp::ValuesMutWrite { v } => {
            let from = model.entries();
            for e in model.m.values_mut().chain(model.nans.iter_mut()) {
                e.1.v = v;
            }
            let mut o = ModelOut::exact(vec![]);
            o.ret = RetSpec::AllEntries { from, keys: false };
            o
        }
        MapOp::Entry { k, chain, .. } => {
            let present = model.m.contains_key(&k);
            let kd = a.kd.unwrap();
            let full = model.full();
            let mut o = match chain {
                EChain::Key => {
                    let shown = if present { model.m[&k].0 } else { kd };
                    ModelOut::exact(vec![F::B(present), F::K(shown)])
                }
                EChain::OrInsert | EChain::OrInsertWith | EChain::OrInsertWithKey | EChain::OrDefault => {
                    let vd = if chain == EChain::OrDefault { a.default_vd } else { a.vd.unwrap() };
                    let mut o = if present {
                        ModelOut::exact(vec![F::V(model.m[&k].1)])
                    } else if full {
                        let mut o = ModelOut::exact(vec![F::Panic]);
                        o.overflow = true;
                        o
                    } else {
                        model.m.insert(k, (kd, vd));
                        ModelOut::exact(vec![F::V(vd)])
                    };
                    if matches!(chain, EChain::OrInsertWith | EChain::OrInsertWithKey) {
                        o.calls = Some(if present { 0 } else { 1 });
                    }
                    o
                }
                EChain::AndModifyOrInsert => {
                    let v1 = a.vd.unwrap();
                    let v2 = a.v2d.unwrap();
                    let mut o = if present {
                        model.m.get_mut(&k).unwrap().1 = v1;
                        ModelOut::exact(vec![F::V(v1)])
                    } else if full {
                        let mut o = ModelOut::exact(vec![F::Panic]);
                        o.overflow = true;
                        o
                    } else {
                        model.m.insert(k, (kd, v2));
                        ModelOut::exact(vec![F::V(v2)])
                    };
                    o.calls = Some(if present { 1 } else { 0 });
                    o
                }
                EChain::OKey => ModelOut::exact(vec![F::B(true), F::K(model.m[&k].0)]),
                EChain::OGet => ModelOut::exact(vec![F::B(true), F::V(model.m[&k].1)]),
                EChain::OGetMutWrite | EChain::OIntoMutWrite | EChain::OInsert => {
                    let e = model.m.get_mut(&k).unwrap();
                    let old = e.1;
                    e.1 = a.vd.unwrap();
                    ModelOut::exact(vec![F::B(true), F::V(old)])
                }
                EChain::ORemove => {
                    let (_, vd) = model.m.remove(&k).unwrap();
                    ModelOut::exact(vec![F::B(true), F::V(vd)])
                }
                EChain::ORemoveEntry => {
                    let (skd, vd) = model.m.remove(&k).unwrap();
                    ModelOut::exact(vec![F::B(true), F::K(skd), F::V(vd)])
                }
                EChain::VKey | EChain::VIntoKey => ModelOut::exact(vec![F::B(false), F::K(kd)]),
                EChain::VInsert => {
                    if full {
                        let mut o = ModelOut::exact(vec![F::Panic]);
                        o.overflow = true;
                        o
                    } else {
                        let vd = a.vd.unwrap();
                        model.m.insert(k, (kd, vd));
                        ModelOut::exact(vec![F::B(false), F::V(vd)])
                    }
                }
            };
            o.identity_case = present;
            o
        }
    }
}

// ------------------------------------------------------------------------------------------
// Real side
// ------------------------------------------------------------------------------------------
pub struct Args<K, V> {
    pub k: Option<K>,
    pub v: Option<V>,
    pub v2: Option<V>,
    pub probe: Option<K>,
    pub d: ArgD,
}

pub fn prepare<K: KeyT, V: ValT>(op: &MapOp, nv: u8) -> Args<K, V> {
    let ptag = K::TAGS - 1;
    let mut a = Args {
        k: None,
        v: None,
        v2: None,
        probe: None,
        d: ArgD {
            kd: None,
            vd: None,
            v2d: None,
            default_vd: VD { id: NOID, v: V::DEFAULT_CODE },
        },
    };
    match *op {
        MapOp::Insert { k, t, v }
        | MapOp::InsertKV { k, t, v }
        | MapOp::CheckedInsert { k, t, v }
        | MapOp::InsertUnchecked { k, t, v } => {
            a.k = Some(K::mk(k, t));
            a.v = Some(V::mk(v));
        }
        MapOp::Remove { k, f }
        | MapOp::RemoveEntry { k, f }
        | MapOp::Get { k, f }
        | MapOp::GetKeyValue { k, f }
        | MapOp::ContainsKey { k, f }
        | MapOp::Index { k, f } => {
            if f == Form::Key {
                a.probe = Some(K::mk(k, ptag));
            }
        }
        MapOp::GetMutWrite { k, f, v } | MapOp::IndexMutWrite { k, f, v } => {
            a.v = Some(V::mk(v));
            if f == Form::Key {
                a.probe = Some(K::mk(k, ptag));
            }
        }
        MapOp::Entry { k, t, chain, v } => {
            a.k = Some(K::mk(k, t));
            if chain.needs_value() {
                a.v = Some(V::mk(v));
            }
            if chain == EChain::AndModifyOrInsert {
                a.v2 = Some(V::mk((v + 1) % nv));
            }
            a.probe = Some(K::mk(k, ptag));
        }
        MapOp::Retain { .. }
        | MapOp::RetainTape { .. }
        | MapOp::Clear
        | MapOp::Drain { .. }
        | MapOp::IterMutWrite { .. }
        | MapOp::ValuesMutWrite { .. } => {}
    }
    a.d.kd = a.k.as_ref().map(|k| k.kd());
    a.d.vd = a.v.as_ref().map(|v| v.vd());
    a.d.v2d = a.v2.as_ref().map(|v| v.vd());
    if V::HAS_ID {
        a.d.default_vd.id = pl::next_id();
    }
    a
}

/// What the real side produced besides the return value.
pub struct Side<K, V> {
    pub held_k: Vec<K>,
    pub held_v: Vec<V>,
    pub fails: Vec<(PMask, String)>,
    pub calls: u32,
    /// entries seen by a visiting op (drain yields, iter_mut visits), in order
    pub items: Vec<(Option<KD>, VD)>,
    /// references handed out: (address, size) - checked to lie inside the container
    pub refs: Vec<(usize, usize)>,
}
impl<K, V> Default for Side<K, V> {
    fn default() -> Self {
        Side {
            held_k: Vec::new(),
            held_v: Vec::new(),
            fails: Vec::new(),
            calls: 0,
            items: Vec::new(),
            refs: Vec::new(),
        }
    }
}
impl<K: KeyT, V: ValT> Side<K, V> {
    fn ref_v(&mut self, r: &V) {
        self.refs.push((r as *const V as usize, std::mem::size_of::<V>()));
    }
    fn ref_k(&mut self, r: &K) {
        self.refs.push((r as *const K as usize, std::mem::size_of::<K>()));
    }
    pub fn held_ids(&self) -> Vec<u32> {
        let mut ids = Vec::new();
        if K::LEDGER {
            ids.extend(self.held_k.iter().map(|k| k.kd().id));
        }
        if V::LEDGER {
            ids.extend(self.held_v.iter().map(|v| v.vd().id));
        }
        ids
    }
}

/// Execute one operation on the real map. Runs under `catch_unwind` in the caller; owned
/// results are parked in `side` so they are judged (and destroyed) by the harness.
pub fn exec_real<K: KeyT, V: ValT, const N: usize>(
    m: &mut Map<K, V, N>,
    op: &MapOp,
    a: &mut Args<K, V>,
    s: &mut Side<K, V>,
    nv: u8,
) -> Ret {
    match *op {
        MapOp::Insert { .. } => {
            let (k_, v_) = (a.k.take().unwrap(), a.v.take().unwrap());
            let r = crate::subj!(m.insert(k_, v_));
            ret_owned_v(r, s)
        }
        MapOp::InsertUnchecked { .. } => {
            let (k_, v_) = (a.k.take().unwrap(), a.v.take().unwrap());
            let r = crate::subj!(unsafe { m.insert_unchecked(k_, v_) });
            ret_owned_v(r, s)
        }
        MapOp::InsertKV { .. } => match {
            let (k_, v_) = (a.k.take().unwrap(), a.v.take().unwrap());
            crate::subj!(m.insert_key_value(k_, v_))
        } {
            Some((k, v)) => {
                let r = vec![F::K(k.kd()), F::V(v.vd())];
                s.held_k.push(k);
                s.held_v.push(v);
                r
            }
            None => vec![F::None],
        },
        MapOp::CheckedInsert { .. } => match {
            let (k_, v_) = (a.k.take().unwrap(), a.v.take().unwrap());
            crate::subj!(m.checked_insert(k_, v_))
        } {
            None => vec![F::None],
            Some(None) => vec![F::B(true), F::None],
            Some(Some(v)) => {
                let r = vec![F::B(true), F::V(v.vd())];
                s.held_v.push(v);
                r
            }
        },
        MapOp::Remove { k, f }
        | MapOp::RemoveEntry { k, f }
        | MapOp::Get { k, f }
        | MapOp::GetKeyValue { k, f }
        | MapOp::ContainsKey { k, f }
        | MapOp::Index { k, f }
        | MapOp::GetMutWrite { k, f, .. }
        | MapOp::IndexMutWrite { k, f, .. } => {
            let newv = a.v.take();
            match f {
                Form::Key => {
                    let probe = a.probe.take().expect("probe");
                    exec_lookup::<K, V, K, N>(m, op, &probe, newv, s)
                }
                Form::Q => K::with_q(k, |q| exec_lookup::<K, V, K::Q, N>(m, op, q, newv, s)),
            }
        }
        MapOp::Retain { keep, mutate } => {
            let mut calls = 0u32;
            let mut items = Vec::new();
            let mut refs = Vec::new();
            crate::subj!(m.retain(|k, v| {
                crate::subject::pause(|| {
                    pl::tick(pl::Cb::Pred);
                    calls += 1;
                    let kd = k.kd();
                    let vd = v.vd();
                    refs.push((k as *const K as usize, std::mem::size_of::<K>()));
                    refs.push((v as *const V as usize, std::mem::size_of::<V>()));
                    items.push((Some(kd), vd));
                    if mutate {
                        v.set((vd.v + 1) % nv);
                    }
                    keep & (1 << kd.k) != 0
                })
            }));
            s.calls = calls;
            s.items = items;
            s.refs.extend(refs);
            vec![]
        }
        MapOp::RetainTape { tape, mutate } => {
            let mut calls = 0u32;
            let mut items = Vec::new();
            let mut refs = Vec::new();
            crate::subj!(m.retain(|k, v| {
                crate::subject::pause(|| {
                    pl::tick(pl::Cb::Pred);
                    let answer = tape >> calls.min(7) & 1 != 0;
                    calls += 1;
                    let kd = k.kd();
                    let vd = v.vd();
                    refs.push((k as *const K as usize, std::mem::size_of::<K>()));
                    refs.push((v as *const V as usize, std::mem::size_of::<V>()));
                    items.push((Some(kd), vd));
                    if mutate {
                        v.set((vd.v + 1) % nv);
                    }
                    answer
                })
            }));
            s.calls = calls;
            s.items = items;
            s.refs.extend(refs);
            vec![]
        }
        MapOp::Clear => {
            crate::subj!(m.clear());
            vec![]
        }
        MapOp::Drain { take, forget } => {
            let mut d = crate::subj!(m.drain());
            for _ in 0..take {
                match crate::subj!(d.next()) {
                    Some((k, v)) => {
                        s.items.push((Some(k.kd()), v.vd()));
                        s.held_k.push(k);
                        s.held_v.push(v);
                    }
                    None => break,
                }
            }
            if forget {
                std::mem::forget(d);
            } else {
                crate::subj!(drop(d));
            }
            vec![]
        }
        MapOp::IterMutWrite { v } => {
            let mut it = crate::subj!(m.iter_mut());
            while let Some((k, val)) = crate::subj!(it.next()) {
                s.items.push((Some(k.kd()), val.vd()));
                s.refs.push((k as *const K as usize, std::mem::size_of::<K>()));
                s.refs.push((val as *const V as usize, std::mem::size_of::<V>()));
                val.set(v);
            }
            vec![]
        }
        MapOp::ValuesMutWrite { v } => {
            let mut it = crate::subj!(m.values_mut());
            while let Some(val) = crate::subj!(it.next()) {
                s.items.push((None, val.vd()));
                s.refs.push((val as *const V as usize, std::mem::size_of::<V>()));
                val.set(v);
            }
            vec![]
        }
        MapOp::Entry { chain, .. } => exec_entry(m, chain, a, s),
    }
}

/// Lookup-style operations, generic over the form `QQ` the key is looked up through.
fn exec_lookup<K: KeyT + Borrow<QQ>, V: ValT, QQ: ?Sized + Eq, const N: usize>(
    m: &mut Map<K, V, N>,
    op: &MapOp,
    q: &QQ,
    newv: Option<V>,
    s: &mut Side<K, V>,
) -> Ret {
    match *op {
        MapOp::Remove { .. } => {
            let r = crate::subj!(m.remove::<QQ>(q));
            ret_owned_v(r, s)
        }
        MapOp::RemoveEntry { .. } => match crate::subj!(m.remove_entry::<QQ>(q)) {
            Some((k, v)) => {
                let r = vec![F::K(k.kd()), F::V(v.vd())];
                s.held_k.push(k);
                s.held_v.push(v);
                r
            }
            None => vec![F::None],
        },
        MapOp::Get { .. } => match crate::subj!(m.get::<QQ>(q)) {
            Some(v) => {
                s.ref_v(v);
                vec![F::V(v.vd())]
            }
            None => vec![F::None],
        },
        MapOp::GetKeyValue { .. } => match crate::subj!(m.get_key_value::<QQ>(q)) {
            Some((k, v)) => {
                s.ref_k(k);
                s.ref_v(v);
                vec![F::K(k.kd()), F::V(v.vd())]
            }
            None => vec![F::None],
        },
        MapOp::ContainsKey { .. } => {
            let r = crate::subj!(m.contains_key::<QQ>(q));
            vec![F::B(r)]
        }
        MapOp::Index { .. } => {
            let r = crate::subj!(<Map<K, V, N> as std::ops::Index<&QQ>>::index(m, q));
            s.ref_v(r);
            vec![F::V(r.vd())]
        }
        MapOp::GetMutWrite { .. } => match crate::subj!(m.get_mut::<QQ>(q)) {
            Some(r) => {
                let old = r.vd();
                s.refs.push((r as *mut V as usize, std::mem::size_of::<V>()));
                *r = newv.unwrap();
                vec![F::V(old)]
            }
            None => vec![F::None],
        },
        MapOp::IndexMutWrite { .. } => {
            let r = crate::subj!(<Map<K, V, N> as std::ops::IndexMut<&QQ>>::index_mut(m, q));
            let old = r.vd();
            s.refs.push((r as *mut V as usize, std::mem::size_of::<V>()));
            *r = newv.unwrap();
            vec![F::V(old)]
        }
        _ => unreachable!(),
    }
}

fn ret_owned_v<K, V: ValT>(r: Option<V>, s: &mut Side<K, V>) -> Ret {
    match r {
        Some(v) => {
            let d = v.vd();
            s.held_v.push(v);
            vec![F::V(d)]
        }
        None => vec![F::None],
    }
}

fn exec_entry<K: KeyT, V: ValT, const N: usize>(
    m: &mut Map<K, V, N>,
    chain: EChain,
    a: &mut Args<K, V>,
    s: &mut Side<K, V>,
) -> Ret {
    let key = a.k.take().unwrap();
    let supplied = a.d.kd.unwrap();
    let probe = a.probe.take().unwrap();
    // address returned by an entry method must be the one get_mut gives afterwards
    macro_rules! same_slot {
        ($addr:expr) => {{
            let addr: usize = $addr;
            s.refs.push((addr, std::mem::size_of::<V>()));
            let again = m.get_mut::<K>(&probe).map(|r| r as *mut V as usize);
            // (a key that is not equal to itself cannot be looked up again)
            if again != Some(addr) && !is_nan(supplied.k) {
                s.fails.push((
                    C11,
                    format!("entry method returned a reference at {addr:#x} but get_mut gives {again:x?}"),
                ));
            }
        }};
    }
    match chain {
        EChain::Key => {
            let e = crate::subj!(m.entry(key));
            let occ = matches!(e, Entry::Occupied(_));
            let kr = e.key();
            if occ {
                // an occupied entry exposes the *stored* key: a reference into the container value
                s.ref_k(kr);
            }
            let d = kr.kd();
            vec![F::B(occ), F::K(d)]
        }
        EChain::OrInsert => {
            let v_ = a.v.take().unwrap();
            let r = crate::subj!(m.entry(key).or_insert(v_));
            let d = r.vd();
            let addr = r as *mut V as usize;
            same_slot!(addr);
            vec![F::V(d)]
        }
        EChain::OrInsertWith => {
            let val = a.v.take().unwrap();
            let mut calls = 0u32;
            let res = catch_unwind(AssertUnwindSafe(|| {
                let r = crate::subj!(m.entry(key).or_insert_with(|| {
                    crate::subject::pause(|| {
                        pl::tick(pl::Cb::Closure);
                        calls += 1;
                    });
                    val
                }));
                (r.vd(), r as *mut V as usize)
            }));
            s.calls = calls;
            match res {
                Ok((d, addr)) => {
                    same_slot!(addr);
                    vec![F::V(d)]
                }
                Err(e) => std::panic::resume_unwind(e),
            }
        }
        EChain::OrInsertWithKey => {
            let val = a.v.take().unwrap();
            let mut calls = 0u32;
            let mut seen = None;
            let res = catch_unwind(AssertUnwindSafe(|| {
                let r = crate::subj!(m.entry(key).or_insert_with_key(|k| {
                    crate::subject::pause(|| {
                        pl::tick(pl::Cb::Closure);
                        calls += 1;
                        seen = Some(k.kd());
                    });
                    val
                }));
                (r.vd(), r as *mut V as usize)
            }));
            s.calls = calls;
            if let Some(sk) = seen {
                if sk != supplied {
                    s.fails.push((C11, format!("or_insert_with_key closure saw key {sk} instead of the supplied {supplied}")));
                }
            }
            match res {
                Ok((d, addr)) => {
                    same_slot!(addr);
                    vec![F::V(d)]
                }
                Err(e) => std::panic::resume_unwind(e),
            }
        }
        EChain::OrDefault => {
            let r = crate::subj!(m.entry(key).or_default());
            let d = r.vd();
            let addr = r as *mut V as usize;
            same_slot!(addr);
            vec![F::V(d)]
        }
        EChain::AndModifyOrInsert => {
            let v1 = a.v.take().unwrap();
            let v2 = a.v2.take().unwrap();
            let mut calls = 0u32;
            let res = catch_unwind(AssertUnwindSafe(|| {
                let r = crate::subj!(m
                    .entry(key)
                    .and_modify(|x| {
                        crate::subject::pause(|| {
                            pl::tick(pl::Cb::Closure);
                            calls += 1;
                        });
                        *x = v1;
                    })
                    .or_insert(v2));
                (r.vd(), r as *mut V as usize)
            }));
            s.calls = calls;
            match res {
                Ok((d, addr)) => {
                    same_slot!(addr);
                    vec![F::V(d)]
                }
                Err(e) => std::panic::resume_unwind(e),
            }
        }
        EChain::OKey
        | EChain::OGet
        | EChain::OGetMutWrite
        | EChain::OInsert
        | EChain::ORemove
        | EChain::ORemoveEntry
        | EChain::OIntoMutWrite => match crate::subj!(m.entry(key)) {
            Entry::Vacant(_) => vec![F::B(false)],
            Entry::Occupied(mut e) => match chain {
                EChain::OKey => {
                    let k = crate::subj!(e.key());
                    s.ref_k(k);
                    vec![F::B(true), F::K(k.kd())]
                }
                EChain::OGet => {
                    let v = crate::subj!(e.get());
                    s.ref_v(v);
                    vec![F::B(true), F::V(v.vd())]
                }
                EChain::OGetMutWrite => {
                    let r = crate::subj!(e.get_mut());
                    let old = r.vd();
                    let addr = r as *mut V as usize;
                    *r = a.v.take().unwrap();
                    drop(e);
                    same_slot!(addr);
                    vec![F::B(true), F::V(old)]
                }
                EChain::OIntoMutWrite => {
                    let r = crate::subj!(e.into_mut());
                    let old = r.vd();
                    let addr = r as *mut V as usize;
                    *r = a.v.take().unwrap();
                    same_slot!(addr);
                    vec![F::B(true), F::V(old)]
                }
                EChain::OInsert => {
                    let v_ = a.v.take().unwrap();
                    let old = crate::subj!(e.insert(v_));
                    let d = old.vd();
                    s.held_v.push(old);
                    vec![F::B(true), F::V(d)]
                }
                EChain::ORemove => {
                    let old = crate::subj!(e.remove());
                    let d = old.vd();
                    s.held_v.push(old);
                    vec![F::B(true), F::V(d)]
                }
                EChain::ORemoveEntry => {
                    let (k, v) = crate::subj!(e.remove_entry());
                    let r = vec![F::B(true), F::K(k.kd()), F::V(v.vd())];
                    s.held_k.push(k);
                    s.held_v.push(v);
                    r
                }
                _ => unreachable!(),
            },
        },
        EChain::VKey | EChain::VIntoKey | EChain::VInsert => match crate::subj!(m.entry(key)) {
            Entry::Occupied(_) => vec![F::B(true)],
            Entry::Vacant(e) => match chain {
                EChain::VKey => {
                    let k = crate::subj!(e.key());
                    vec![F::B(false), F::K(k.kd())]
                }
                EChain::VIntoKey => {
                    let k = crate::subj!(e.into_key());
                    let d = k.kd();
                    s.held_k.push(k);
                    vec![F::B(false), F::K(d)]
                }
                EChain::VInsert => {
                    let v_ = a.v.take().unwrap();
                    let r = crate::subj!(e.insert(v_));
                    let d = r.vd();
                    let addr = r as *mut V as usize;
                    same_slot!(addr);
                    vec![F::B(false), F::V(d)]
                }
                _ => unreachable!(),
            },
        },
    }
}

// ------------------------------------------------------------------------------------------
// Observation and invariants
// ------------------------------------------------------------------------------------------
pub fn entries_of<K: KeyT, V: ValT, const N: usize>(m: &Map<K, V, N>) -> Vec<(KD, VD)> {
    m.iter().map(|(k, v)| (k.kd(), v.vd())).collect()
}

pub fn snapshot<K: KeyT, V: ValT, const N: usize>(m: &Map<K, V, N>) -> Snap {
    let e: Vec<(u8, u8, u8)> = m
        .iter()
        .take(7)
        .map(|(k, v)| {
            let (kd, vd) = (k.kd(), v.vd());
            (kd.k & 7, kd.tag & 1, vd.v & 7)
        })
        .collect();
    Snap::from_entries(&e)
}

/// C05: the invariants, judged on the very object, with no reference model involved.
pub fn invariants<K: KeyT, V: ValT, const N: usize>(m: &Map<K, V, N>, cx: &mut Ctx, extra: PMask) {
    let pm = C05 | extra;
    let len = m.len();
    let mut n = 0usize;
    let items: Vec<(&K, &V)> = m.iter().take(N + 2).collect();
    for (i, (k, _)) in items.iter().enumerate() {
        n += 1;
        for (k2, _) in &items[..i] {
            if k.kd().k == k2.kd().k && !is_nan(k.kd().k) {
                cx.violate(pm, format!("iteration yields two equal keys {} and {}", k.kd(), k2.kd()));
            }
        }
    }
    cx.check(pm, n == len, || format!("iter() yields {n} entries but len() is {len}"));
    cx.check(pm, m.is_empty() == (len == 0), || {
        format!("is_empty() is {} but len() is {len}", m.is_empty())
    });
    cx.check(pm | C03, m.capacity() == N, || format!("capacity() is {} for N = {N}", m.capacity()));
    cx.check(pm | C03, len <= N, || format!("len() {len} exceeds capacity {N}"));
    for (k, v) in &items {
        if is_nan(k.kd().k) {
            // a stored key that is not equal to itself is absent for every lookup, also when the
            // probe is the stored key object itself
            let found = m.get::<K>(k).is_some() || m.get_key_value::<K>(k).is_some() || m.contains_key::<K>(k);
            cx.check(C01, !found, || format!("key {} is not equal to itself, yet a lookup through the stored key object finds it", k.kd()));
            let idx = std::panic::catch_unwind(std::panic::AssertUnwindSafe(|| {
                let _ = <Map<K, V, N> as std::ops::Index<&K>>::index(m, k);
            }));
            cx.check(C01, idx.is_err(), || format!("indexing with the stored key object {} (not equal to itself) did not panic", k.kd()));
            continue;
        }
        // a borrowed form that aliases the stored key in memory without being equal to it is absent
        if let Some(found) = k.alias_probe(|q| m.contains_key(q) || m.get(q).is_some() || m.get_key_value(q).is_some()) {
            cx.check(C01, !found, || format!("a lookup through a borrowed value that shares the address of the stored key {} but is not equal to it finds an entry", k.kd()));
        }
        let got = m.get::<K>(k).map(|x| x as *const V);
        cx.check(pm, got == Some(*v as *const V), || {
            format!("key {} yielded by iter() does not look up to the value yielded with it", k.kd())
        });
        let gkv = m.get_key_value::<K>(k).map(|(a, b)| (a as *const K, b as *const V));
        cx.check(pm, gkv == Some((*k as *const K, *v as *const V)), || {
            format!("get_key_value({}) does not return the entry yielded by iter()", k.kd())
        });
        cx.check(pm, m.contains_key::<K>(k), || format!("contains_key({}) is false for a yielded key", k.kd()));
        // ... and through its borrowed form (which may be unsized, zero-sized, or spelled differently)
        if K::DISTINCT_Q {
            let (bq, bkv, bc) = K::with_q(k.kd().k, |q| {
                (m.get(q).map(|x| x as *const V), m.get_key_value(q).map(|(a, b)| (a as *const K, b as *const V)), m.contains_key(q))
            });
            cx.check(pm, bq == Some(*v as *const V) && bkv == Some((*k as *const K, *v as *const V)) && bc, || {
                format!("key {} yielded by iter() does not look up, through its borrowed form, to the entry yielded with it", k.kd())
            });
        }
    }
}

/// Compare everything observable with the model: len, lookups of every universe key through
/// both forms, iteration as a multiset; identities separately attributed.
pub fn observe<K: KeyT, V: ValT, const N: usize>(
    m: &Map<K, V, N>,
    model: &RefMap,
    probes: &[K],
    cx: &mut Ctx,
    base: PMask,
    range: (usize, usize),
) -> bool {
    let sem = base; // dictionary semantics
    let idp = C12 | (base & !C01); // stored-key identity
    let own = C02 | (base & !C01); // value object identity
    let mut ok = true;
    let want = model.entries();
    ok &= cx.check(sem, m.len() == want.len(), || format!("len() is {} but the model holds {}", m.len(), want.len()));
    ok &= cx.check(sem, m.is_empty() == want.is_empty(), || "is_empty() disagrees with the model".to_string());
    let mut got = entries_of(m);
    got.sort();
    let mut w = want.clone();
    w.sort();
    let codes = |x: &[(KD, VD)]| {
        let mut c: Vec<(u8, u8)> = x.iter().map(|(k, v)| (k.k, v.v)).collect();
        c.sort();
        c
    };
    if codes(&got) != codes(&w) {
        ok = false;
        cx.violate(sem, format!("iteration yields {} but the model holds {}", render(&got), render(&w)));
    } else {
        cx.check(sem, true, String::new);
        let keys = |x: &[(KD, VD)]| {
            let mut c: Vec<KD> = x.iter().map(|(k, _)| *k).collect();
            c.sort();
            c
        };
        if keys(&got) != keys(&w) {
            ok = false;
            cx.violate(idp, format!("stored key objects are {} but should be {}", render(&got), render(&w)));
        } else {
            cx.check(idp, true, String::new);
            if got != w {
                ok = false;
                cx.violate(own, format!("stored value objects are {} but should be {}", render(&got), render(&w)));
            } else {
                cx.check(own, true, String::new);
            }
        }
    }
    for (i, probe) in probes.iter().enumerate() {
        let k = i as u8;
        let want = model.m.get(&k).copied();
        let g1 = m.get::<K>(probe).map(|v| v.vd());
        ok &= cx.check(sem, g1.map(|v| v.v) == want.map(|e| e.1.v), || {
            format!("get(k{k}) is {:?} but the model says {:?}", g1, want.map(|e| e.1))
        });
        if let Some(r) = m.get::<K>(probe) {
            let a = r as *const V as usize;
            cx.check(C06, a >= range.0 && a + std::mem::size_of::<V>() <= range.1, || {
                format!("get(k{k}) returned a reference outside the container value")
            });
        }
        if K::DISTINCT_Q && !is_nan(k) {
            let g2 = K::with_q(k, |q| m.get(q).map(|v| v.vd()));
            ok &= cx.check(sem, g2 == g1, || {
                format!("lookup of k{k} through the borrowed form gives {g2:?}, through the key {g1:?}")
            });
            let c2 = K::with_q(k, |q| m.contains_key(q));
            ok &= cx.check(sem, c2 == want.is_some(), || format!("contains_key(borrowed k{k}) is {c2}"));
        }
        let c1 = m.contains_key::<K>(probe);
        ok &= cx.check(sem, c1 == want.is_some(), || format!("contains_key(k{k}) is {c1}"));
        let gkv = m.get_key_value::<K>(probe).map(|(a, b)| (a.kd(), b.vd()));
        ok &= cx.check(sem, gkv.map(|x| (x.0.k, x.1.v)) == want.map(|x| (x.0.k, x.1.v)), || {
            format!("get_key_value(k{k}) is {gkv:?} but the model says {want:?}")
        });
        if gkv.is_some() && want.is_some() {
            ok &= cx.check(idp, gkv.map(|x| x.0) == want.map(|x| x.0), || {
                format!("get_key_value(k{k}) exposes key {} but the stored key should be {}", gkv.unwrap().0, want.unwrap().0)
            });
        }
    }
    ok
}

pub fn render(e: &[(KD, VD)]) -> String {
    let p: Vec<String> = e.iter().map(|(k, v)| format!("{k}={v}")).collect();
    format!("{{{}}}", p.join(", "))
}

// ------------------------------------------------------------------------------------------
// One judged step
// ------------------------------------------------------------------------------------------
pub struct StepOut {
    /// real state agrees with the model, so exploring onward is meaningful
    pub consistent: bool,
    pub panicked: bool,
}

/// Ownership oracle: the ledger's live set must be exactly `expect` (plus optionally leaked).
pub fn check_live(cx: &mut Ctx, pm: PMask, mut expect: Vec<u32>, leak_ok: &[u32], when: &str) -> bool {
    let live = pl::live_ids();
    expect.sort_unstable();
    expect.dedup();
    let mut extra: Vec<u32> = live.iter().copied().filter(|id| expect.binary_search(id).is_err() && !leak_ok.contains(id)).collect();
    let mut missing: Vec<u32> = expect.iter().copied().filter(|id| live.binary_search(id).is_err()).collect();
    // A KEY object that is alive in place of an equal key object that should be (same code, possibly another
    // tag) is not an ownership defect - every object is still in exactly one place and destroyed exactly once -
    // but the wrong one of two equal keys was kept: stored-key identity (C12).
    let mut swapped: Vec<(u32, u32)> = Vec::new();
    extra.retain(|x| {
        let Some(ox) = pl::obj(*x) else { return true };
        if !ox.is_key {
            return true;
        }
        if let Some(pos) = missing.iter().position(|m| pl::obj(*m).is_some_and(|om| om.is_key && om.code == ox.code)) {
            swapped.push((*x, missing.remove(pos)));
            false
        } else {
            true
        }
    });
    let mut ok = true;
    if let Some((x, m)) = swapped.first() {
        ok = false;
        cx.violate(C12, format!("{when}: key object #{x} is alive where the equal key object #{m} should be (the wrong one of two equal keys was kept)"));
    }
    if let Some(id) = extra.first() {
        ok = false;
        let o = pl::obj(*id).unwrap();
        cx.violate(
            pm,
            format!(
                "{when}: {} object #{id} (code {}, tag {}) is still alive but is neither stored nor held (leak or misplaced)",
                if o.is_key { "key" } else { "value" },
                o.code,
                o.tag
            ),
        );
    }
    if let Some(id) = missing.first() {
        ok = false;
        let o = pl::obj(*id);
        cx.violate(pm, format!("{when}: object #{id} {o:?} should be alive (stored or held) but was destroyed"));
    }
    if ok {
        cx.check(pm, true, String::new);
    }
    ok
}

pub fn flush_ledger(cx: &mut Ctx, pm: PMask, when: &str) -> bool {
    let v = pl::take_violations();
    if v.is_empty() {
        cx.check(pm, true, String::new);
        return true;
    }
    for x in v.iter().take(3) {
        cx.violate(pm, format!("{when}: {:?}: {}", x.class, x.msg));
    }
    false
}

thread_local! {
    /// ids of objects that are legitimately alive outside the container being stepped
    /// (e.g. the other copy in clone_mc)
    pub static ALSO_LIVE: std::cell::RefCell<Vec<u32>> = const { std::cell::RefCell::new(Vec::new()) };
}
pub fn set_also_live(ids: Vec<u32>) {
    ALSO_LIVE.with(|a| *a.borrow_mut() = ids);
}

/// Stale-slot variant of state building (engine flag `--stale`): after replaying the history,
/// the container is filled to capacity with a filler key outside the universe and the fillers
/// are removed again, so that every dead slot `[len, N)` holds a stale byte copy of a destroyed
/// element instead of never-written memory. The observable state (and the model) is unchanged.
pub static STALE: std::sync::atomic::AtomicBool = std::sync::atomic::AtomicBool::new(false);
/// Fill the free slots with filler keys outside the universe (codes nk..K::MAXCODE), then remove
/// them last-in-first-out (pure pops: the live prefix is not disturbed).
pub fn make_stale<K: KeyT, V: ValT, const N: usize>(m: &mut Map<K, V, N>, nk: u8) {
    let free = N - m.len().min(N);
    let codes: Vec<u8> = (nk..K::MAXCODE).take(free).collect();
    for c in &codes {
        m.insert(K::mk(*c, 0), V::mk(0));
    }
    for c in codes.iter().rev() {
        K::with_q(*c, |q| {
            m.remove(q);
        });
    }
}
pub fn set_stale(on: bool) {
    STALE.store(on, std::sync::atomic::Ordering::Relaxed);
}
pub fn stale() -> bool {
    STALE.load(std::sync::atomic::Ordering::Relaxed)
}

/// Pre-history (engine flag `--prehist drain|forget|clear|retain|remove|entries`): before a state's history
/// is replayed, the fresh container is filled to capacity, every key is looked up through every lookup
/// path (get, get_mut, get_key_value, contains_key, entry), and the container is emptied again by the
/// chosen route. Observably it is the initial empty container again (and the model stays empty), but
/// whatever an implementation keeps *besides* `len` and the live slots - a cached index, a hint, a
/// high-water mark - has been set and must have been invalidated; the dead slots hold stale copies too.
pub static PREHIST: std::sync::atomic::AtomicU8 = std::sync::atomic::AtomicU8::new(0);
pub fn set_prehist(name: Option<&str>) {
    let c = match name {
        Some("drain") => 1,
        Some("forget") => 2,
        Some("clear") => 3,
        Some("retain") => 4,
        Some("remove") => 5,
        Some("entries") => 6,
        _ => 0,
    };
    PREHIST.store(c, std::sync::atomic::Ordering::Relaxed);
}
pub fn prehistory<K: KeyT, V: ValT, const N: usize>(m: &mut Map<K, V, N>, nk: u8) {
    let mode = PREHIST.load(std::sync::atomic::Ordering::Relaxed);
    if mode == 0 {
        return;
    }
    let fill = (N as u8).min(nk);
    for k in 0..fill {
        m.insert(K::mk(k, 0), V::mk(0));
    }
    for round in 0..2 {
        // descending, then ascending: the final touch of every kind lands on the LAST slot - the one
        // that is dead in every state reached afterwards with fewer than `fill` entries - after the
        // first slot had been the latest one for a while
        let keys: Vec<u8> = if round == 1 { (0..fill).collect() } else { (0..fill).rev().collect() };
        for k in keys {
            K::with_q(k, |q| {
                let _ = m.get(q);
                let _ = m.get_mut(q);
                let _ = m.get_key_value(q);
                let _ = m.contains_key(q);
            });
            let e = m.entry(K::mk(k, 0));
            let _ = e.key();
            drop(e);
            // every writing operation, as an update of the present key (contents stay the same)
            let _ = m.insert(K::mk(k, 0), V::mk(0));
            // SAFETY: the key is present, which is insert_unchecked's precondition
            let _ = unsafe { m.insert_unchecked(K::mk(k, 0), V::mk(0)) };
            let _ = m.insert_key_value(K::mk(k, 0), V::mk(0));
            let _ = m.checked_insert(K::mk(k, 0), V::mk(0));
            let _ = m.entry(K::mk(k, 0)).and_modify(|_| {}).or_insert_with(|| V::mk(0));
            if let Entry::Occupied(mut e) = m.entry(K::mk(k, 0)) {
                let _ = e.get_mut();
                let _ = e.insert(V::mk(0));
            }
        }
    }
    match mode {
        1 => drop(m.drain()),
        2 => std::mem::forget(m.drain()),
        3 => m.clear(),
        4 => m.retain(|_, _| false),
        5 => {
            for k in 0..fill {
                K::with_q(k, |q| {
                    m.remove(q);
                });
            }
        }
        _ => {
            for k in (0..fill).rev() {
                if let Entry::Occupied(e) = m.entry(K::mk(k, 0)) {
                    let _ = e.remove_entry();
                }
            }
        }
    }
}

/// Which constructor produces the initial (empty) container of every rebuilt state
/// (engine flag `--ctor new|default|with_capacity`).
pub static CTOR: std::sync::atomic::AtomicU8 = std::sync::atomic::AtomicU8::new(0);
pub fn set_ctor(name: Option<&str>) {
    let c = match name {
        Some("default") => 1,
        Some("with_capacity") => 2,
        _ => 0,
    };
    CTOR.store(c, std::sync::atomic::Ordering::Relaxed);
}
#[allow(deprecated)]
pub fn construct<K, V, const N: usize>() -> Map<K, V, N> {
    match CTOR.load(std::sync::atomic::Ordering::Relaxed) {
        1 => Map::default(),
        2 => Map::with_capacity(N),
        _ => Map::new(),
    }
}

pub struct MapSys<K, V, const N: usize> {
    pub nk: u8,
    pub nv: u8,
    pub ops: Vec<MapOp>,
    pub alpha: Alpha,
    _p: PhantomData<fn() -> (K, V)>,
}

impl<K: KeyT, V: ValT, const N: usize> MapSys<K, V, N> {
    pub fn new(nk: u8, nv: u8, alpha: Alpha) -> Self {
        let nk = nk.min(K::MAXK);
        let nv = nv.min(V::MAXV);
        MapSys {
            nk,
            nv,
            ops: alphabet::<K, V>(N, nk, nv, alpha),
            alpha,
            _p: PhantomData,
        }
    }

    pub fn probes(&self) -> Vec<K> {
        (0..self.nk).map(|k| K::mk(k, 0)).collect()
    }

    /// Apply `op` to the real map and the model, and judge.
    pub fn step(
        &self,
        bx: &mut Canary<Map<K, V, N>>,
        model: &mut RefMap,
        probes: &[K],
        op: &MapOp,
        cx: &mut Ctx,
        leaked: &mut Vec<u32>,
    ) -> StepOut {
        let ledger = K::LEDGER || V::LEDGER;
        let mut a = prepare::<K, V>(op, self.nv);
        let ad = a.d;
        let mut side: Side<K, V> = Side::default();
        let range = bx.range();
        let nv = self.nv;
        crate::subject::reset();
        let res = {
            let m = &mut bx.c;
            catch_unwind(AssertUnwindSafe(|| exec_real(m, op, &mut a, &mut side, nv)))
        };
        let allocs = crate::subject::take();
        drop(a);
        let (got, panicked) = match res {
            Ok(r) => (r, false),
            Err(e) => match classify_panic(e) {
                PanicKind::Injected(..) => {
                    cx.machinery("injected panic outside a fuse run".into());
                    (vec![F::Panic], true)
                }
                PanicKind::Container(_) => (vec![F::Panic], true),
            },
        };
        let mo = exec_model(model, op, &ad, nv, &side.items);
        if cx.quiet {
            leaked.extend(mo.leak_ok.iter().copied());
            drop(side);
            return StepOut { consistent: true, panicked };
        }
        let base = op.base_props();
        let pm = base | if mo.overflow { C03 } else { 0 };
        let idm = if mo.identity_case { C12 } else { 0 };
        let mut consistent = true;
        // outcome classes (non-vacuity)
        cx.class(&format!(
            "{}:{}",
            opclass(op),
            if panicked {
                "panic"
            } else if mo.identity_case {
                "present"
            } else if mo.overflow {
                "refused"
            } else {
                "ok"
            }
        ));
        // 1. the return value
        match &mo.ret {
            RetSpec::Exact(want) => {
                if strip_ids(&got, false) != strip_ids(want, false) {
                    consistent = false;
                    cx.violate(pm, format!("returned {got:?} but the model says {want:?}"));
                } else {
                    cx.check(pm, true, String::new);
                    if strip_ids(&got, true) != strip_ids(want, true) {
                        cx.violate(C12 | (pm & !C01), format!("returned key object {got:?} but should be {want:?}"));
                    } else {
                        cx.check(idm | (pm & !C01), true, String::new);
                        if ledger {
                            cx.check(C02 | (pm & !C01), got == *want, || {
                                format!("returned object {got:?} but the model says {want:?} (wrong object identity)")
                            });
                        }
                    }
                }
            }
            RetSpec::SomeEntries { count, from } => {
                let items: Vec<(KD, VD)> = side.items.iter().map(|(k, v)| (k.unwrap(), *v)).collect();
                // semantics (key and value codes) first; object identity is a separate matter (C12 / C02)
                let code = |x: &(KD, VD)| (x.0.k, x.1.v);
                // the yielded entries must be a sub-multiset of the stored ones (by key and value code)
                let mut pool: Vec<(u8, u8)> = from.iter().map(code).collect();
                let mut sub = true;
                for x in &items {
                    match pool.iter().position(|p| *p == code(x)) {
                        Some(i) => {
                            pool.swap_remove(i);
                        }
                        None => sub = false,
                    }
                }
                let sem = !panicked && items.len() == *count && sub;
                consistent &= sem;
                cx.check(pm, sem, || format!("yielded {} but should yield {count} distinct entries of {}", render(&items), render(from)));
                if sem {
                    let ident = items.iter().all(|x| from.contains(x));
                    consistent &= ident;
                    cx.check(C12 | C02 | (pm & !C01), ident, || {
                        format!("yielded the objects {} but the stored objects are {}", render(&items), render(from))
                    });
                }
            }
            RetSpec::AllEntries { from, keys } => {
                let mut got_items: Vec<(Option<KD>, VD)> = side.items.clone();
                got_items.sort();
                let mut want_items: Vec<(Option<KD>, VD)> =
                    from.iter().map(|(k, v)| (if *keys { Some(*k) } else { None }, *v)).collect();
                want_items.sort();
                let codes = |x: &[(Option<KD>, VD)]| {
                    let mut c: Vec<(Option<u8>, u8)> = x.iter().map(|(k, v)| (k.map(|k| k.k), v.v)).collect();
                    c.sort();
                    c
                };
                let sem = !panicked && codes(&got_items) == codes(&want_items);
                consistent &= sem;
                cx.check(pm, sem, || format!("visited {got_items:?} but the stored entries are {want_items:?}"));
                if sem {
                    let ident = got_items == want_items;
                    consistent &= ident;
                    cx.check(C12 | C02 | (pm & !(C01 | C09)), ident, || format!("visited the objects {got_items:?} but the stored objects are {want_items:?}"));
                }
            }
        }
        if let Some(c) = mo.calls {
            cx.check(C11, side.calls == c, || format!("closure ran {} times, expected {c}", side.calls));
        }
        if let MapOp::RetainTape { .. } = op {
            let ok = mo.visit_error.is_none();
            consistent &= ok;
            cx.check(pm, ok, || mo.visit_error.clone().unwrap_or_default());
        }
        if let MapOp::Retain { .. } = op {
            let mut seen: Vec<u8> = side.items.iter().map(|(k, _)| k.unwrap().k).collect();
            let n = seen.len();
            seen.sort_unstable();
            seen.dedup();
            cx.class(if n == seen.len() { "retain:each_entry_seen_once" } else { "retain:entry_seen_twice" });
        }
        // 2. side conditions found while executing
        for (m_, msg) in side.fails.drain(..) {
            cx.violate(m_, msg);
        }
        // references handed out point inside the container value
        for (addr, sz) in &side.refs {
            cx.check(C06, *addr >= range.0 && addr + sz <= range.1, || {
                format!("a reference handed out ({addr:#x}) lies outside the container value {range:x?}")
            });
        }
        // no heap: with non-allocating element types the call made no allocator call
        if crate::subject::installed() && K::PLAIN && V::PLAIN && !panicked {
            cx.check(C06, allocs == 0, || format!("the call made {allocs} allocator call(s)"));
        }
        // 3. nothing outside the container was written
        cx.check(C03 | C02 | (pm & C18), bx.intact(), || "a canary next to the container was overwritten".to_string());
        // 4./5. ownership
        if ledger {
            let own = C02 | (pm & !C01);
            consistent &= flush_ledger(cx, own, "during the call");
            let mut expect = model.stored_ids();
            expect.extend(probes.iter().filter(|_| K::LEDGER).map(|p| p.kd().id));
            ALSO_LIVE.with(|a| expect.extend(a.borrow().iter().copied()));
            let mut leak_ok = leaked.clone();
            leak_ok.extend(mo.leak_ok.iter().copied());
            let mut with_held = expect.clone();
            with_held.extend(side.held_ids());
            consistent &= check_live(cx, own, with_held, &leak_ok, "after the call");
            drop(side);
            consistent &= check_live(cx, own, expect, &leak_ok, "after dropping what was returned");
            consistent &= flush_ledger(cx, own, "dropping what was returned");
        } else {
            drop(side);
        }
        leaked.extend(mo.leak_ok.iter().copied());
        // 6. everything observable vs the model; 7. invariants on the very object
        consistent &= observe(&bx.c, model, probes, cx, pm, range);
        invariants(&bx.c, cx, (if panicked { pm & C03 } else { 0 }) | (pm & C18));
        if ledger {
            consistent &= flush_ledger(cx, C02 | (pm & !C01), "observing the container afterwards");
        }
        let _ = idm;
        StepOut { consistent, panicked }
    }

    /// After a refused insertion the very object must stay usable: take every entry out and
    /// put it back, compare with the model again.
    pub fn exercise(
        &self,
        bx: &mut Canary<Map<K, V, N>>,
        model: &mut RefMap,
        probes: &[K],
        cx: &mut Ctx,
        leaked: &mut Vec<u32>,
        pm: PMask,
    ) {
        let keys: Vec<u8> = model.m.keys().copied().collect();
        let saved_here = cx.here.extra.clone();
        cx.here.extra = format!("{saved_here} [usability exercise after the panic]");
        let saved_enabled = cx.enabled;
        // attribute everything in the exercise to the property of the refused call
        for k in keys {
            for op in [MapOp::Remove { k, f: Form::Key }, MapOp::Insert { k, t: 0, v: 0 }] {
                let before = cx.total_violations();
                let mut sub = Ctx::new(!0);
                sub.here = cx.here.clone();
                let out = self.step(bx, model, probes, &op, &mut sub, leaked);
                if sub.total_violations() > 0 || !out.consistent {
                    let msg = sub
                        .best
                        .iter()
                        .flatten()
                        .next()
                        .map(|v| v.msg.clone())
                        .unwrap_or_else(|| "inconsistent".into());
                    cx.violate(pm, format!("container unusable after the panic: {op}: {msg}"));
                } else {
                    cx.check(pm, true, String::new);
                }
                let _ = before;
            }
        }
        cx.enabled = saved_enabled;
        cx.here.extra = saved_here;
    }

    /// Build a fresh container by replaying `path` (quietly). Returns the pieces.
    pub fn build(&self, path: &[u32], cx: &mut Ctx) -> Built<K, V, N> {
        pl::reset();
        set_also_live(Vec::new());
        self.build_more(path, cx)
    }

    /// Like `build`, but in the current ledger epoch (objects built earlier stay valid).
    pub fn build_more(&self, path: &[u32], cx: &mut Ctx) -> Built<K, V, N> {
        let mut bx = Canary::boxed(construct::<K, V, N>());
        // what a pre-history leaves alive (the un-yielded elements of a forgotten drain) is a tolerated leak
        let alive_before = pl::live_ids();
        prehistory::<K, V, N>(&mut bx.c, self.nk);
        let mut leaked: Vec<u32> = pl::live_ids().into_iter().filter(|id| !alive_before.contains(id)).collect();
        let mut model = RefMap::new(N);
        let probes = self.probes();
        let was = cx.quiet;
        cx.quiet = true;
        for i in path {
            let op = self.ops[*i as usize];
            if !applicable(&model, &op) {
                continue; // (history mode) an op whose precondition does not hold is skipped
            }
            self.step(&mut bx, &mut model, &probes, &op, cx, &mut leaked);
        }
        if stale() {
            make_stale::<K, V, N>(&mut bx.c, self.nk);
        }
        cx.quiet = was;
        Built { bx, model, probes, leaked }
    }

    /// Tear down: drop the container and the probes, then the ledger must balance.
    pub fn teardown(&self, b: Built<K, V, N>, cx: &mut Ctx, pm: PMask) {
        let Built { bx, probes, leaked, .. } = b;
        drop(bx);
        drop(probes);
        if K::LEDGER || V::LEDGER {
            flush_ledger(cx, pm, "dropping the container");
            check_live(cx, pm, Vec::new(), &leaked, "after dropping the container");
        }
        if let Some([made, cloned, gone]) = V::counters() {
            // counted zero-sized values: everything made or cloned is destroyed exactly once
            // (a forgotten drain - in the pre-history or as an operation, recognised by the keys it leaked - is the sanctioned leak)
            let may_leak = PREHIST.load(std::sync::atomic::Ordering::Relaxed) == 2 || !leaked.is_empty() || !K::LEDGER;
            cx.check(pm | C02, gone == made + cloned || (may_leak && gone < made + cloned), || {
                format!("zero-sized values with a destructor: {made} created and {cloned} cloned, but {gone} destroyed after the container is gone")
            });
        }
    }
}

pub struct Built<K, V, const N: usize> {
    pub bx: Box<Canary<Map<K, V, N>>>,
    pub model: RefMap,
    pub probes: Vec<K>,
    pub leaked: Vec<u32>,
}

pub fn opclass(op: &MapOp) -> String {
    match op {
        MapOp::Entry { chain, .. } => format!("entry.{chain:?}"),
        other => {
            let s = format!("{other:?}");
            s.split([' ', '{']).next().unwrap_or("").to_string()
        }
    }
}

impl<K: KeyT, V: ValT, const N: usize> Sys for MapSys<K, V, N> {
    fn n_ops(&self) -> usize {
        self.ops.len()
    }
    fn op_name(&self, i: usize) -> String {
        self.ops[i].to_string()
    }
    fn config(&self) -> String {
        format!("Map<{},{},{}> keys={} tags={} values={} alphabet={:?}", K::NAME, V::NAME, N, self.nk, K::TAGS, self.nv, self.alpha)
    }
    fn run(&self, path: &[u32], op: Option<u32>, cx: &mut Ctx) -> RunOut {
        let mut b = self.build(path, cx);
        let before = snapshot(&b.bx.c);
        let mut after = None;
        let mut explore = false;
        // History mode replays the prefix without judging it. If the prefix has already driven the
        // container away from the model, the culprit is the last operation of a *shorter* history,
        // which is enumerated and judged on its own: blaming this history's last operation would
        // attribute the deviation to the wrong property.
        let mut diverged = false;
        if self.alpha == Alpha::Hist && op.is_some() {
            let mut real = entries_of(&b.bx.c);
            real.sort();
            let mut want = b.model.entries();
            want.sort();
            // ... or left objects alive / destroyed that the model places elsewhere (e.g. a swapped key
            // identity hidden behind a later drain)
            let mut own_ok = true;
            if K::LEDGER || V::LEDGER {
                let mut must: Vec<u32> = b.model.stored_ids();
                if K::LEDGER {
                    must.extend(b.probes.iter().map(|p| p.kd().id));
                }
                let live = pl::live_ids();
                own_ok = must.iter().all(|id| live.contains(id)) && live.iter().all(|id| must.contains(id) || b.leaked.contains(id));
            }
            if real != want || !own_ok || pl::violation_count() > 0 {
                diverged = true;
                pl::take_violations();
                cx.class("history: prefix diverged from the model (judged at the shorter history)");
            }
        }
        if let Some(oi) = op.filter(|_| !diverged) {
            let o = self.ops[oi as usize];
            let judged = o.relevant() & cx.enabled != 0;
            if applicable(&b.model, &o) && (judged || o.generating()) {
                let was_quiet = cx.quiet;
                if !judged {
                    cx.quiet = true;
                }
                cx.here.op = o.to_string();
                cx.here.extra.clear();
                crumb(&cx.here.op);
                if judged {
                    cx.evaluations += 1;
                }
                let pre_len = b.model.total();
                let out = self.step(&mut b.bx, &mut b.model, &b.probes, &o, cx, &mut b.leaked);
                after = Some(snapshot(&b.bx.c));
                explore = out.consistent;
                if out.panicked && out.consistent {
                    let pm = if pre_len >= N && o.is_insertion() { C03 } else { o.base_props() };
                    self.exercise(&mut b.bx, &mut b.model, &b.probes, cx, &mut b.leaked, pm);
                }
                if judged && (pre_len > 0 || after != Some(before)) {
                    cx.nontrivial += 1;
                }
                if pre_len == 0 {
                    cx.class("state:empty");
                }
                if pre_len == N {
                    cx.class("state:full");
                }
                cx.sample(|| {
                    crate::json::J::obj()
                        .set("history", cx_path(path, self))
                        .set("op", o.to_string())
                        .set("state_before", before.render())
                        .set("state_after", after.unwrap().render())
                });
                cx.quiet = was_quiet;
            }
        }
        if diverged {
            let mut q = Ctx::new(0);
            q.quiet = true;
            self.teardown(b, &mut q, 0);
            pl::take_violations();
        } else {
            self.teardown(b, cx, C02);
        }
        RunOut { before, after, explore }
    }
}

fn cx_path<K: KeyT, V: ValT, const N: usize>(path: &[u32], s: &MapSys<K, V, N>) -> Vec<String> {
    path.iter().map(|i| s.ops[*i as usize].to_string()).collect()
}
