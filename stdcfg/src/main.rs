//! C06 configuration check, second configuration: the crate with feature `std` enabled.
use micromap::{Map, Set};
fn main() {
    let mut m: Map<String, u32, 4> = Map::new();
    m.insert("a".into(), 1);
    m.insert("b".into(), 2);
    let s: Set<u8, 4> = [1, 2, 3].into_iter().collect();
    assert_eq!(m.len() + s.len(), 5);
    assert_eq!(format!("{m} {s}"), "{a: 1, b: 2} {1, 2, 3}");
    println!("ok");
}
