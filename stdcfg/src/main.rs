//! C06 configuration check, second configuration: the crate with feature `std` enabled.
//! (Nothing here may depend on iteration order: no property fixes it.)
use micromap::{Map, Set};
fn main() {
    let mut m: Map<String, u32, 4> = Map::new();
    m.insert("a".into(), 1);
    m.insert("b".into(), 2);
    let s: Set<u8, 4> = [1, 2, 3].into_iter().collect();
    assert_eq!(m.len() + s.len(), 5);
    let shown = format!("{m}");
    assert!(shown == "{a: 1, b: 2}" || shown == "{b: 2, a: 1}", "unexpected Display: {shown}");
    let mut elems: Vec<u8> = s.iter().copied().collect();
    elems.sort_unstable();
    assert_eq!(elems, [1, 2, 3]);
    assert_eq!(format!("{s}").len(), "{1, 2, 3}".len());
    println!("ok");
}
