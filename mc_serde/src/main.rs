//! serde_mc (C20, feature serde): every content and internal order (all fresh layouts plus
//! every insert/remove history up to a depth) of a source Map<u8,u8,N> / Set<u8,N> x target
//! capacities M in {len, N, N+1, 6}; (a) a recording token Serializer shows the announced
//! length is Some(len()) and exactly len() entries are emitted; a token Deserializer (with
//! and without size hints, like streaming and length-prefixed formats) feeds them back and the
//! result must equal the original; (b) the same through bincode 2 (legacy config).

use mc::bfs::par_states;
use mc::ctx::*;
use mc::json::J;
use micromap::{Map, Set};
use serde::de::value::Error as DeError;
use serde::de::{DeserializeSeed, MapAccess, SeqAccess, Visitor};
use serde::ser::{Impossible, SerializeMap, SerializeSeq};
use serde::{Deserialize, Deserializer, Serialize, Serializer};

const PM: PMask = C20;

#[derive(Clone, Copy, Debug, PartialEq, Eq)]
enum Tok {
    U8(u8),
    MapStart(Option<usize>),
    SeqStart(Option<usize>),
    End,
}

// ---------------------------------------------------------------------------- serializer
struct Ser<'a>(&'a mut Vec<Tok>);

fn unsup<T>() -> Result<T, DeError> {
    Err(<DeError as serde::ser::Error>::custom("unsupported by the token format"))
}

macro_rules! unsup_scalar {
    ($($name:ident: $ty:ty,)*) => { $(fn $name(self, _v: $ty) -> Result<(), DeError> { unsup() })* };
}

impl<'a> Serializer for Ser<'a> {
    type Ok = ();
    type Error = DeError;
    type SerializeSeq = Ser<'a>;
    type SerializeTuple = Impossible<(), DeError>;
    type SerializeTupleStruct = Impossible<(), DeError>;
    type SerializeTupleVariant = Impossible<(), DeError>;
    type SerializeMap = Ser<'a>;
    type SerializeStruct = Impossible<(), DeError>;
    type SerializeStructVariant = Impossible<(), DeError>;
    fn serialize_u8(self, v: u8) -> Result<(), DeError> {
        self.0.push(Tok::U8(v));
        Ok(())
    }
    fn serialize_seq(self, len: Option<usize>) -> Result<Ser<'a>, DeError> {
        self.0.push(Tok::SeqStart(len));
        Ok(self)
    }
    fn serialize_map(self, len: Option<usize>) -> Result<Ser<'a>, DeError> {
        self.0.push(Tok::MapStart(len));
        Ok(self)
    }
    unsup_scalar! {
        serialize_bool: bool, serialize_i8: i8, serialize_i16: i16, serialize_i32: i32, serialize_i64: i64,
        serialize_u16: u16, serialize_u32: u32, serialize_u64: u64, serialize_f32: f32, serialize_f64: f64,
        serialize_char: char, serialize_str: &str, serialize_bytes: &[u8],
    }
    fn serialize_none(self) -> Result<(), DeError> {
        unsup()
    }
    fn serialize_some<T: ?Sized + Serialize>(self, _: &T) -> Result<(), DeError> {
        unsup()
    }
    fn serialize_unit(self) -> Result<(), DeError> {
        unsup()
    }
    fn serialize_unit_struct(self, _: &'static str) -> Result<(), DeError> {
        unsup()
    }
    fn serialize_unit_variant(self, _: &'static str, _: u32, _: &'static str) -> Result<(), DeError> {
        unsup()
    }
    fn serialize_newtype_struct<T: ?Sized + Serialize>(self, _: &'static str, _: &T) -> Result<(), DeError> {
        unsup()
    }
    fn serialize_newtype_variant<T: ?Sized + Serialize>(self, _: &'static str, _: u32, _: &'static str, _: &T) -> Result<(), DeError> {
        unsup()
    }
    fn serialize_tuple(self, _: usize) -> Result<Self::SerializeTuple, DeError> {
        unsup()
    }
    fn serialize_tuple_struct(self, _: &'static str, _: usize) -> Result<Self::SerializeTupleStruct, DeError> {
        unsup()
    }
    fn serialize_tuple_variant(self, _: &'static str, _: u32, _: &'static str, _: usize) -> Result<Self::SerializeTupleVariant, DeError> {
        unsup()
    }
    fn serialize_struct(self, _: &'static str, _: usize) -> Result<Self::SerializeStruct, DeError> {
        unsup()
    }
    fn serialize_struct_variant(self, _: &'static str, _: u32, _: &'static str, _: usize) -> Result<Self::SerializeStructVariant, DeError> {
        unsup()
    }
}
impl SerializeSeq for Ser<'_> {
    type Ok = ();
    type Error = DeError;
    fn serialize_element<T: ?Sized + Serialize>(&mut self, v: &T) -> Result<(), DeError> {
        v.serialize(Ser(self.0))
    }
    fn end(self) -> Result<(), DeError> {
        self.0.push(Tok::End);
        Ok(())
    }
}
impl SerializeMap for Ser<'_> {
    type Ok = ();
    type Error = DeError;
    fn serialize_key<T: ?Sized + Serialize>(&mut self, k: &T) -> Result<(), DeError> {
        k.serialize(Ser(self.0))
    }
    fn serialize_value<T: ?Sized + Serialize>(&mut self, v: &T) -> Result<(), DeError> {
        v.serialize(Ser(self.0))
    }
    fn end(self) -> Result<(), DeError> {
        self.0.push(Tok::End);
        Ok(())
    }
}

// -------------------------------------------------------------------------- deserializer
struct De<'t> {
    toks: &'t [Tok],
    pos: usize,
    hints: bool,
}
impl De<'_> {
    fn peek(&self) -> Option<Tok> {
        self.toks.get(self.pos).copied()
    }
    /// number of complete items (entries or elements) before the matching End
    fn remaining_items(&self, per: usize) -> usize {
        let mut n = 0;
        let mut p = self.pos;
        while let Some(Tok::U8(_)) = self.toks.get(p) {
            n += 1;
            p += 1;
        }
        n / per
    }
}
fn err<T>(m: &str) -> Result<T, DeError> {
    Err(<DeError as serde::de::Error>::custom(m))
}
impl<'de> Deserializer<'de> for &mut De<'_> {
    type Error = DeError;
    fn deserialize_any<V: Visitor<'de>>(self, v: V) -> Result<V::Value, DeError> {
        match self.peek() {
            Some(Tok::U8(_)) => self.deserialize_u8(v),
            Some(Tok::MapStart(_)) => self.deserialize_map(v),
            Some(Tok::SeqStart(_)) => self.deserialize_seq(v),
            _ => err("unexpected token"),
        }
    }
    fn deserialize_u8<V: Visitor<'de>>(self, v: V) -> Result<V::Value, DeError> {
        match self.peek() {
            Some(Tok::U8(x)) => {
                self.pos += 1;
                v.visit_u8(x)
            }
            _ => err("expected u8"),
        }
    }
    fn deserialize_map<V: Visitor<'de>>(self, v: V) -> Result<V::Value, DeError> {
        match self.peek() {
            Some(Tok::MapStart(_)) => {
                self.pos += 1;
                let r = v.visit_map(Acc { de: self, per: 2 })?;
                Ok(r)
            }
            _ => err("expected map"),
        }
    }
    fn deserialize_seq<V: Visitor<'de>>(self, v: V) -> Result<V::Value, DeError> {
        match self.peek() {
            Some(Tok::SeqStart(_)) => {
                self.pos += 1;
                let r = v.visit_seq(Acc { de: self, per: 1 })?;
                Ok(r)
            }
            _ => err("expected seq"),
        }
    }
    serde::forward_to_deserialize_any! {
        bool i8 i16 i32 i64 i128 u16 u32 u64 u128 f32 f64 char str string bytes byte_buf option unit
        unit_struct newtype_struct tuple tuple_struct struct enum identifier ignored_any
    }
}
struct Acc<'a, 't> {
    de: &'a mut De<'t>,
    per: usize,
}
impl<'de> MapAccess<'de> for Acc<'_, '_> {
    type Error = DeError;
    fn next_key_seed<K: DeserializeSeed<'de>>(&mut self, seed: K) -> Result<Option<K::Value>, DeError> {
        match self.de.peek() {
            Some(Tok::End) => {
                self.de.pos += 1;
                Ok(None)
            }
            Some(_) => seed.deserialize(&mut *self.de).map(Some),
            None => err("eof"),
        }
    }
    fn next_value_seed<V: DeserializeSeed<'de>>(&mut self, seed: V) -> Result<V::Value, DeError> {
        seed.deserialize(&mut *self.de)
    }
    fn size_hint(&self) -> Option<usize> {
        self.de.hints.then(|| self.de.remaining_items(self.per))
    }
}
impl<'de> SeqAccess<'de> for Acc<'_, '_> {
    type Error = DeError;
    fn next_element_seed<T: DeserializeSeed<'de>>(&mut self, seed: T) -> Result<Option<T::Value>, DeError> {
        match self.de.peek() {
            Some(Tok::End) => {
                self.de.pos += 1;
                Ok(None)
            }
            Some(_) => seed.deserialize(&mut *self.de).map(Some),
            None => err("eof"),
        }
    }
    fn size_hint(&self) -> Option<usize> {
        self.de.hints.then(|| self.de.remaining_items(self.per))
    }
}

// --------------------------------------------------------------------------------- oracle
fn tokens<T: Serialize>(x: &T) -> Result<Vec<Tok>, DeError> {
    let mut v = Vec::new();
    x.serialize(Ser(&mut v))?;
    Ok(v)
}

fn check_map_target<const N: usize, const M: usize>(cx: &mut Ctx, src: &Map<u8, u8, N>, toks: &[Tok], bytes: &[u8]) {
    for hints in [false, true] {
        let mut de = De { toks, pos: 0, hints };
        let r = Map::<u8, u8, M>::deserialize(&mut de);
        cx.evaluations += 1;
        match r {
            Ok(m) => {
                cx.check(PM, m == *src && *src == m, || format!("Map<_,_,{N}> {src:?} decoded into capacity {M} (size hints: {hints}) as {m:?}"));
                let mut a: Vec<(u8, u8)> = m.iter().map(|(k, v)| (*k, *v)).collect();
                let mut b: Vec<(u8, u8)> = src.iter().map(|(k, v)| (*k, *v)).collect();
                a.sort();
                b.sort();
                cx.check(PM, a == b && m.len() == src.len(), || format!("decoded entries {a:?} differ from the original {b:?}"));
                cx.check(PM, de.pos == toks.len(), || "the decoder did not consume the whole output".to_string());
            }
            Err(e) => cx.violate(PM, format!("Map {src:?} (len {}) does not decode into sufficient capacity {M} (size hints: {hints}): {e}", src.len())),
        }
    }
    // deserialize_in_place into an existing container: whatever it held before, it must end up
    // equal to the original. Targets: empty; holding a key the source lacks; holding a source key
    // with another value; full of foreign keys.
    for prefill in 0..4u8 {
        let mut target = Map::<u8, u8, M>::new();
        match prefill {
            1 if M >= 1 => {
                target.insert(200, 9);
            }
            2 if M >= 1 => {
                if let Some((k, v)) = src.iter().next() {
                    target.insert(*k, v.wrapping_add(1));
                }
            }
            3 => {
                for i in 0..M {
                    target.insert(100 + i as u8, 7);
                }
            }
            _ => {}
        }
        let before = format!("{target:?}");
        let mut de = De { toks, pos: 0, hints: prefill % 2 == 0 };
        let r = <Map<u8, u8, M> as Deserialize>::deserialize_in_place(&mut de, &mut target);
        cx.evaluations += 1;
        match r {
            Ok(()) => {
                cx.check(PM, target == *src && *src == target && target.len() == src.len(), || {
                    format!("deserialize_in_place of {src:?} into a Map<_,_,{M}> holding {before} gives {target:?}")
                });
            }
            Err(e) => cx.violate(PM, format!("deserialize_in_place of {src:?} into a Map<_,_,{M}> holding {before} fails: {e}")),
        };
    }
    let r: Result<(Map<u8, u8, M>, usize), _> = bincode::serde::decode_from_slice(bytes, bincode::config::legacy());
    cx.evaluations += 1;
    match r {
        Ok((m, used)) => {
            cx.check(PM, m == *src && used == bytes.len(), || format!("bincode: Map {src:?} decoded into capacity {M} as {m:?} using {used} of {} bytes", bytes.len()));
        }
        Err(e) => cx.violate(PM, format!("bincode: Map {src:?} does not decode into sufficient capacity {M}: {e}")),
    }
}

fn check_set_target<const N: usize, const M: usize>(cx: &mut Ctx, src: &Set<u8, N>, toks: &[Tok], bytes: &[u8]) {
    for hints in [false, true] {
        let mut de = De { toks, pos: 0, hints };
        let r = Set::<u8, M>::deserialize(&mut de);
        cx.evaluations += 1;
        match r {
            Ok(s) => {
                cx.check(PM, s == *src && *src == s, || format!("Set<_,{N}> {src:?} decoded into capacity {M} (size hints: {hints}) as {s:?}"));
                cx.check(PM, s.len() == src.len() && de.pos == toks.len(), || "decoded length / consumed tokens differ".to_string());
            }
            Err(e) => cx.violate(PM, format!("Set {src:?} (len {}) does not decode into sufficient capacity {M} (size hints: {hints}): {e}", src.len())),
        }
    }
    for prefill in 0..3u8 {
        let mut target = Set::<u8, M>::new();
        match prefill {
            1 if M >= 1 => {
                target.insert(200);
            }
            2 => {
                for i in 0..M {
                    target.insert(100 + i as u8);
                }
            }
            _ => {}
        }
        let before = format!("{target:?}");
        let mut de = De { toks, pos: 0, hints: prefill % 2 == 0 };
        let r = <Set<u8, M> as Deserialize>::deserialize_in_place(&mut de, &mut target);
        cx.evaluations += 1;
        match r {
            Ok(()) => {
                cx.check(PM, target == *src && *src == target && target.len() == src.len(), || {
                    format!("deserialize_in_place of {src:?} into a Set<_,{M}> holding {before} gives {target:?}")
                });
            }
            Err(e) => cx.violate(PM, format!("deserialize_in_place of {src:?} into a Set<_,{M}> holding {before} fails: {e}")),
        };
    }
    let r: Result<(Set<u8, M>, usize), _> = bincode::serde::decode_from_slice(bytes, bincode::config::legacy());
    cx.evaluations += 1;
    match r {
        Ok((s, used)) => cx.check(PM, s == *src && used == bytes.len(), || format!("bincode: Set {src:?} decoded into capacity {M} as {s:?}")),
        Err(e) => {
            cx.violate(PM, format!("bincode: Set {src:?} does not decode into sufficient capacity {M}: {e}"));
            false
        }
    };
}

macro_rules! targets {
    ($f:ident, $N:ident, $cx:expr, $src:expr, $toks:expr, $bytes:expr, $len:expr) => {{
        // every sufficient capacity among 0..=6: exactly len, N, N+1, and roomier ones
        if $len <= 0 { $f::<$N, 0>($cx, $src, $toks, $bytes); }
        if $len <= 1 { $f::<$N, 1>($cx, $src, $toks, $bytes); }
        if $len <= 2 { $f::<$N, 2>($cx, $src, $toks, $bytes); }
        if $len <= 3 { $f::<$N, 3>($cx, $src, $toks, $bytes); }
        if $len <= 4 { $f::<$N, 4>($cx, $src, $toks, $bytes); }
        if $len <= 5 { $f::<$N, 5>($cx, $src, $toks, $bytes); }
        $f::<$N, 6>($cx, $src, $toks, $bytes);
    }};
}

#[derive(Clone, Copy, Debug)]
enum HOp {
    Ins(u8, u8),
    Rem(u8),
}

fn one_map<const N: usize>(cx: &mut Ctx, hist: &[HOp]) {
    let mut m = Map::<u8, u8, N>::new();
    let mut model: Vec<(u8, u8)> = Vec::new();
    for o in hist {
        match *o {
            HOp::Ins(k, v) => {
                if !model.iter().any(|e| e.0 == k) && model.len() >= N {
                    return;
                }
                m.insert(k, v);
                if let Some(e) = model.iter_mut().find(|e| e.0 == k) {
                    e.1 = v;
                } else {
                    model.push((k, v));
                }
            }
            HOp::Rem(k) => {
                m.remove(&k);
                model.retain(|e| e.0 != k);
            }
        }
    }
    cx.here.op = "Map round trip".into();
    if !model.is_empty() {
        cx.nontrivial += 1;
    }
    let len = m.len();
    let toks = match tokens(&m) {
        Ok(t) => t,
        Err(e) => {
            cx.violate(PM, format!("serializing {m:?} failed: {e}"));
            return;
        }
    };
    // (a) announced and emitted counts
    let announced = match toks.first() {
        Some(Tok::MapStart(n)) => *n,
        _ => None,
    };
    cx.check(PM, announced == Some(len), || format!("Map of len {len} announces {announced:?} entries"));
    let emitted: Vec<(u8, u8)> = toks[1..toks.len().saturating_sub(1)]
        .chunks(2)
        .filter_map(|c| match c {
            [Tok::U8(k), Tok::U8(v)] => Some((*k, *v)),
            _ => None,
        })
        .collect();
    let well_formed = toks.len() == 2 + 2 * emitted.len() && toks.last() == Some(&Tok::End);
    let mut e = emitted.clone();
    e.sort();
    model.sort();
    cx.check(PM, well_formed && emitted.len() == len && e == model, || format!("Map {m:?} (len {len}) emitted {emitted:?} (tokens {toks:?})"));
    let mut buf = [0u8; 256];
    let bytes = match bincode::serde::encode_into_slice(&m, &mut buf, bincode::config::legacy()) {
        Ok(n) => &buf[..n],
        Err(e) => {
            cx.violate(PM, format!("bincode: serializing {m:?} failed: {e}"));
            return;
        }
    };
    targets!(check_map_target, N, cx, &m, &toks, bytes, len);
    cx.sample(|| J::obj().set("history", format!("{hist:?}")).set("tokens", format!("{toks:?}")).set("bincode_bytes", bytes.len()));
}

fn one_set<const N: usize>(cx: &mut Ctx, hist: &[HOp]) {
    let mut s = Set::<u8, N>::new();
    let mut model: Vec<u8> = Vec::new();
    for o in hist {
        match *o {
            HOp::Ins(k, _) => {
                if !model.contains(&k) && model.len() >= N {
                    return;
                }
                s.insert(k);
                if !model.contains(&k) {
                    model.push(k);
                }
            }
            HOp::Rem(k) => {
                s.remove(&k);
                model.retain(|e| *e != k);
            }
        }
    }
    cx.here.op = "Set round trip".into();
    if !model.is_empty() {
        cx.nontrivial += 1;
    }
    let len = s.len();
    let toks = match tokens(&s) {
        Ok(t) => t,
        Err(e) => {
            cx.violate(PM, format!("serializing {s:?} failed: {e}"));
            return;
        }
    };
    let announced = match toks.first() {
        Some(Tok::SeqStart(n)) => *n,
        _ => None,
    };
    cx.check(PM, announced == Some(len), || format!("Set of len {len} announces {announced:?} elements"));
    let mut emitted: Vec<u8> = toks[1..toks.len().saturating_sub(1)].iter().filter_map(|t| if let Tok::U8(k) = t { Some(*k) } else { None }).collect();
    let n_emitted = emitted.len();
    emitted.sort();
    model.sort();
    cx.check(PM, toks.len() == 2 + n_emitted && n_emitted == len && emitted == model, || format!("Set {s:?} (len {len}) emitted tokens {toks:?}"));
    let mut buf = [0u8; 256];
    let bytes = match bincode::serde::encode_into_slice(&s, &mut buf, bincode::config::legacy()) {
        Ok(n) => &buf[..n],
        Err(e) => {
            cx.violate(PM, format!("bincode: serializing {s:?} failed: {e}"));
            return;
        }
    };
    targets!(check_set_target, N, cx, &s, &toks, bytes, len);
}

fn decode(mut idx: usize, len: usize, base: usize) -> Vec<usize> {
    let mut s = vec![0; len];
    for i in (0..len).rev() {
        s[i] = idx % base;
        idx /= base;
    }
    s
}


/// C05 for containers that come off the wire: every entry sequence of length <= `len` over a small key / value
/// alphabet - REPEATED KEYS INCLUDED, which no serializer of this crate emits but any peer may send - decoded into
/// every capacity 0..=4 through the token deserializer (with and without size hints), `deserialize_in_place` into a
/// pre-filled target, and bincode. The decoder may refuse (error or the container's own overflow panic); whatever
/// it hands back must satisfy the invariants: keys pairwise unequal, `len()` == entries yielded <= capacity,
/// `is_empty()` consistent, every yielded key looks up to the value yielded with it.
fn wire_inputs<const M: usize>(cx: &mut Ctx, k: u8, v: u8, len: usize) -> u64 {
    use std::panic::{catch_unwind, AssertUnwindSafe};
    let base = (k as usize) * (v as usize);
    let mut n_inputs = 0u64;
    for l in 0..=len {
        for idx in 0..base.pow(l as u32) {
            let seq = decode(idx, l, base);
            let entries: Vec<(u8, u8)> = seq.iter().map(|x| ((x / v as usize) as u8, (x % v as usize) as u8)).collect();
            n_inputs += 1;
            cx.here.path = vec![format!("wire input {entries:?}")];
            let mut map_toks = vec![Tok::MapStart(Some(l))];
            let mut seq_toks = vec![Tok::SeqStart(Some(l))];
            for (kk, vv) in &entries {
                map_toks.extend([Tok::U8(*kk), Tok::U8(*vv)]);
                seq_toks.push(Tok::U8(*kk));
            }
            map_toks.push(Tok::End);
            seq_toks.push(Tok::End);
            let judge_map = |cx: &mut Ctx, what: &str, m: &Map<u8, u8, M>| {
                let items: Vec<(u8, u8)> = m.iter().map(|(a, b)| (*a, *b)).collect();
                let mut keys: Vec<u8> = items.iter().map(|e| e.0).collect();
                keys.sort_unstable();
                keys.dedup();
                cx.check(C05, keys.len() == items.len(), || format!("{what} of {entries:?} into Map<_,_,{M}>: the decoded map yields a key twice: {items:?}"));
                cx.check(C05, m.len() == items.len() && m.len() <= m.capacity() && m.capacity() == M && m.is_empty() == items.is_empty(), || {
                    format!("{what} of {entries:?}: len() {} but {} entries are yielded (capacity {})", m.len(), items.len(), m.capacity())
                });
                for (a, b) in &items {
                    cx.check(C05, m.get(a) == Some(b) && m.contains_key(a), || format!("{what} of {entries:?}: yields ({a}, {b}) but get({a}) is {:?}", m.get(a)));
                }
            };
            let judge_set = |cx: &mut Ctx, what: &str, m: &Set<u8, M>| {
                let items: Vec<u8> = m.iter().copied().collect();
                let mut keys = items.clone();
                keys.sort_unstable();
                keys.dedup();
                cx.check(C05, keys.len() == items.len(), || format!("{what} of {entries:?} into Set<_,{M}>: the decoded set yields an element twice: {items:?}"));
                cx.check(C05, m.len() == items.len() && m.len() <= m.capacity() && m.is_empty() == items.is_empty(), || {
                    format!("{what} of {entries:?}: len() {} but {} elements are yielded", m.len(), items.len())
                });
                for a in &items {
                    cx.check(C05, m.contains(a) && m.get(a) == Some(a), || format!("{what} of {entries:?}: yields {a} but contains({a}) is false"));
                }
            };
            for hints in [false, true] {
                cx.here.op = format!("deserialize (size hints: {hints})");
                cx.evaluations += 2;
                let r = catch_unwind(AssertUnwindSafe(|| Map::<u8, u8, M>::deserialize(&mut De { toks: &map_toks, pos: 0, hints })));
                if let Ok(Ok(m)) = &r {
                    judge_map(cx, "deserialize", m);
                }
                cx.class(match &r { Ok(Ok(_)) => "wire:map:decoded", Ok(Err(_)) => "wire:map:error", Err(_) => "wire:map:panic" });
                let r = catch_unwind(AssertUnwindSafe(|| Set::<u8, M>::deserialize(&mut De { toks: &seq_toks, pos: 0, hints })));
                if let Ok(Ok(m)) = &r {
                    judge_set(cx, "deserialize", m);
                }
                // in place, into a target that already holds the first key of the input with another value
                cx.here.op = format!("deserialize_in_place (size hints: {hints})");
                let mut target = Map::<u8, u8, M>::new();
                if M > 0 {
                    target.insert(entries.first().map_or(0, |e| e.0), 7);
                }
                let r = catch_unwind(AssertUnwindSafe(|| <Map<u8, u8, M> as Deserialize>::deserialize_in_place(&mut De { toks: &map_toks, pos: 0, hints }, &mut target)));
                if let Ok(Ok(())) = r {
                    judge_map(cx, "deserialize_in_place", &target);
                }
            }
            // bincode (legacy config): u64 length prefix, then the entries
            cx.here.op = "bincode decode".to_string();
            let mut mb = (l as u64).to_le_bytes().to_vec();
            let mut sb = mb.clone();
            for (kk, vv) in &entries {
                mb.extend([*kk, *vv]);
                sb.push(*kk);
            }
            let r = catch_unwind(|| bincode::serde::decode_from_slice::<Map<u8, u8, M>, _>(&mb, bincode::config::legacy()));
            if let Ok(Ok((m, _))) = &r {
                judge_map(cx, "bincode decode", m);
            }
            let r = catch_unwind(|| bincode::serde::decode_from_slice::<Set<u8, M>, _>(&sb, bincode::config::legacy()));
            if let Ok(Ok((m, _))) = &r {
                judge_set(cx, "bincode decode", m);
            }
        }
    }
    n_inputs
}

fn run_n<const N: usize>(rep: &mut EngineReport, k: u8, v: u8, depth: usize, threads: usize, replay: Option<(Vec<u32>, bool)>) -> i32 {
    let mut ops = Vec::new();
    for kk in 0..k {
        for vv in 0..v {
            ops.push(HOp::Ins(kk, vv));
        }
    }
    for kk in 0..k {
        ops.push(HOp::Rem(kk));
    }
    let config = format!("serde round trip of Map<u8,u8,{N}> / Set<u8,{N}> built by every insert/remove history of length <= {depth} over {} ops", ops.len());
    if let Some((p, is_set)) = replay {
        let hist: Vec<HOp> = p.iter().map(|i| ops[*i as usize]).collect();
        let mut cx = Ctx::new(rep.cx.enabled);
        cx.here.config = config.clone();
        cx.here.path = hist.iter().map(|h| format!("{h:?}")).collect();
        if is_set {
            one_set::<N>(&mut cx, &hist);
        } else {
            one_map::<N>(&mut cx, &hist);
        }
        let vv: Vec<J> = cx.best.iter().flatten().map(|b| b.to_json()).collect();
        let n = vv.len();
        println!("{}", J::obj().set("config", config).set("violations", J::Arr(vv)).dump());
        return i32::from(n > 0);
    }
    let mut cx = rep.cx.fork();
    cx.here.config = config.clone();
    let t0 = std::time::Instant::now();
    let mut total = 0usize;
    for len in 0..=depth {
        let n = ops.len().pow(len as u32);
        total += n;
        par_states(n, threads, &mut cx, |i, lcx| {
            let seq = decode(i, len, ops.len());
            let hist: Vec<HOp> = seq.iter().map(|x| ops[*x]).collect();
            lcx.here.path = hist.iter().map(|h| format!("{h:?}")).collect();
            lcx.here.path_idx = seq.iter().map(|x| *x as u32).collect();
            lcx.here.extra = "map".into();
            one_map::<N>(lcx, &hist);
            if hist.iter().all(|h| !matches!(h, HOp::Ins(_, vv) if *vv > 0)) {
                lcx.here.extra = "set".into();
                one_set::<N>(lcx, &hist);
            }
        });
    }
    rep.configs.push(J::obj().set("config", config).set("histories", total).set("wall_s", t0.elapsed().as_secs_f64()));
    rep.states += total as u64;
    rep.transitions += cx.evaluations;
    rep.cx.merge(cx);
    0
}

fn main() {
    let args = Args::from_env();
    silence_panics();
    install_crash_handler(args.get("crumb"));
    let mut rep = EngineReport::new("serde_mc", args.props());
    let ns = args.list_usize("n", &[0, 1, 3, 4]);
    let k = args.usize("k", 4) as u8;
    let v = args.usize("v", 2) as u8;
    let depth = args.usize("depth", 4);
    let threads = args.threads();
    if let Some(p) = args.get("replay-path") {
        let path = mc::bfs::parse_idx_list(p);
        let is_set = args.get("replay-extra").map(|e| e.contains("set")).unwrap_or(false);
        let n = ns[0];
        let code = mc::with_n!(n, run_n::<>(&mut rep, k, v, depth, threads, Some((path, is_set))));
        std::process::exit(code);
    }
    if args.props() & C20 != 0 {
        for n in ns {
            mc::with_n!(n, run_n::<>(&mut rep, k, v, depth.min(n + 2).max(1), threads, None));
        }
    }
    if args.props() & C05 != 0 {
        // containers that come off the wire (repeated keys included) must satisfy the invariants
        let wl = args.usize("wire", 4);
        let mut cx = rep.cx.fork();
        cx.here.config = format!("wire inputs: every entry sequence of length <= {wl} over 3 keys x 2 values, repeated keys included, decoded into capacities 0..=4");
        let t0 = std::time::Instant::now();
        let n = wire_inputs::<0>(&mut cx, 3, 2, wl) + wire_inputs::<1>(&mut cx, 3, 2, wl) + wire_inputs::<2>(&mut cx, 3, 2, wl) + wire_inputs::<3>(&mut cx, 3, 2, wl) + wire_inputs::<4>(&mut cx, 3, 2, wl);
        rep.configs.push(J::obj().set("config", cx.here.config.as_str()).set("inputs", n).set("wall_s", t0.elapsed().as_secs_f64()));
        rep.states += n;
        rep.transitions += cx.evaluations;
        rep.cx.merge(cx);
    }
    std::process::exit(rep.finish(args.get("out")));
}
