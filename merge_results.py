#!/usr/bin/env python3
"""merge_results.py <log> [<log> ...]: fold the CAUGHT/MISSED lines of `./check selftest` runs that were started with
`vp run` (their RESULTS.json lives in the run's snapshot, which is removed with the run) into /verif/seeded/RESULTS.json.
Later logs win. Rows are target-only rows (complete = false)."""
import json, re, sys, os
V = os.path.dirname(os.path.abspath(__file__))
rp = os.path.join(V, "seeded", "RESULTS.json")
res = json.load(open(rp))
pat = re.compile(r"^(\S+): (CAUGHT|MISSED) target=(\S+) caught_by=\[(.*?)\] machinery=\[(.*?)\]")
for log in sys.argv[1:]:
    for line in open(log, errors="replace"):
        m = pat.match(line.strip())
        if not m:
            continue
        name, verdict, target, caught, mach = m.groups()
        caught = [c.strip(" '") for c in caught.split(",") if c.strip()]
        mach = [c.strip(" '") for c in mach.split(",") if c.strip()]
        if not os.path.isdir(os.path.join(V, "seeded", name)):
            continue   # a change that was re-classified (moved to /verif/benign) or dropped
        meta_p = os.path.join(V, "seeded", name, "meta.json")
        meta = json.load(open(meta_p)) if os.path.exists(meta_p) else {}
        t = meta.get("breaks_property", target)
        old = res.get(name, {})
        cb = sorted(set(old.get("caught_by", [])) - {target} | set(caught)) if old and not old.get("error") else caught
        res[name] = {"breaks_property": t, "caught_by": cb, "silent": [] if caught else [target], "machinery_error": mach,
                     "target_check_catches": t in cb, "tier": "quick", "mode": f"scratch checkout (VERIF_REPO override), vp run snapshot, log {os.path.basename(os.path.dirname(log))}",
                     "complete": False, "first_observation": old.get("first_observation", {})}
json.dump(res, open(rp, "w"), indent=1, sort_keys=True)
print(len(res), "rows")
