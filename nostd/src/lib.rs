//! C06 configuration check: a `#![no_std]` final artifact (staticlib) with its own panic
//! handler and NO global allocator that uses a representative slice of the micromap API.
//! It builds only if micromap needs neither `std` nor `alloc`: a crate that links `alloc`
//! makes rustc demand a `#[global_allocator]` for a final artifact.
#![no_std]

use core::fmt::Write;
use micromap::{Map, Set};

#[panic_handler]
fn panic(_: &core::panic::PanicInfo<'_>) -> ! {
    loop {}
}

struct Sink(usize);
impl Write for Sink {
    fn write_str(&mut self, s: &str) -> core::fmt::Result {
        self.0 += s.len();
        Ok(())
    }
}

#[no_mangle]
pub extern "C" fn micromap_nostd_probe(seed: u8) -> usize {
    let mut m: Map<u8, u16, 8> = Map::new();
    for i in 0..6u8 {
        m.insert(i.wrapping_mul(seed) % 7, u16::from(i));
    }
    m.insert_key_value(1, 1);
    let _ = m.checked_insert(2, 2);
    m.remove(&3);
    let _ = m.remove_entry(&4);
    m.retain(|k, v| {
        *v += 1;
        *k % 2 == 0
    });
    *m.entry(5).or_insert(0) += 1;
    let _ = m.entry(6).or_default();
    m.entry(5).and_modify(|v| *v += 1).or_insert_with(|| 9);
    if let Some(v) = m.get_mut(&5) {
        *v += 1;
    }
    let _ = m.get_disjoint_mut([&0, &2]);
    let mut total = m.len() + usize::from(m.contains_key(&0)) + m.get(&2).map_or(0, |v| *v as usize);
    total += m.iter().count() + m.keys().count() + m.values().count();
    for (_, v) in m.iter_mut() {
        *v += 1;
    }
    for v in m.values_mut() {
        *v += 1;
    }
    let c = m.clone();
    total += usize::from(c == m);
    let mut sink = Sink(0);
    let _ = write!(sink, "{m:?} {m}");
    total += sink.0;
    let mut s: Set<u8, 8> = m.keys().copied().collect();
    let o: Set<u8, 4> = Set::from([0, 1, 2, 9]);
    s.insert(seed);
    s.replace(seed);
    total += s.union(&o).count() + s.intersection(&o).count() + s.difference(&o).count() + s.symmetric_difference(&o).count();
    total += usize::from(s.is_subset(&o)) + usize::from(s.is_superset(&o)) + usize::from(s.is_disjoint(&o));
    let d = &s - &o;
    total += d.len();
    s.extend(o.iter());
    let _ = s.take(&0);
    let _ = write!(sink, "{s:?} {s}");
    total += s.drain().count() + m.drain().count();
    total += c.into_iter().count() + d.into_iter().count();
    total + sink.0
}
